#!/bin/sh
# usage: tools/thorough.sh [properties...]  - runs the thorough tier of each check without touching
# /verif/evidence (meant for `vp run --with-repo`: builds against the snapshot of /repo when there is one).
./setup.sh >/dev/null || exit 2
if [ -n "$VP_RUN_REPO" ]; then
  sed "s#=> /repo#=> $VP_RUN_REPO#" harness/go.mod > /var/tmp/thorough-$$.mod; cp /repo/go.sum /var/tmp/thorough-$$.sum
  export VERIF_MODFILE=/var/tmp/thorough-$$.mod VERIF_REPO_DIR=$VP_RUN_REPO
fi
props=${@:-C14 C20 C15 C03 C02 C10 C11 C16 C13 C08 C05 C04 C06 C07 C09 C12 C17 C18 C19 C01}
for p in $props; do
  VERIF_NO_EVIDENCE=1 bin/vcheck run $p --tier thorough > thorough.$p.out 2>&1
  echo "$p rc=$? $(grep -h '^SUMMARY\|^VIOLATION\|^INCONCLUSIVE\|^BROKEN' thorough.$p.out | cut -c1-300)"
done
rm -f /var/tmp/thorough-$$.mod /var/tmp/thorough-$$.sum
