#!/bin/bash
# Measuring aid (not used by any registered command): statement coverage of goyang reached
# by the quick tier. Go only instruments packages of the main module, so the worker is
# built inside a scratch copy of /repo with the harness copied in under zzverif/.
set -e
export GOFLAGS=-mod=mod GOPROXY=off GOSUMDB=off GOTOOLCHAIN=local
W=/var/tmp/covrepo; rm -rf $W /var/tmp/cov; mkdir -p $W /var/tmp/cov
rsync -a --exclude .git /repo/ $W/
mkdir -p $W/zzverif && cp -r /verif/harness/cmd /verif/harness/internal $W/zzverif/
grep -rl '"verif/internal/' $W/zzverif | xargs sed -i 's#"verif/internal/#"github.com/openconfig/goyang/zzverif/internal/#'
(cd $W && go build -tags verif -cover -coverpkg=./... -o /var/tmp/vworker-cover ./zzverif/cmd/vworker)
cd /verif
for p in ${@:-C01 C02 C03 C04 C05 C06 C07 C08 C09 C10 C11 C12 C13 C14 C15 C16 C17 C18 C20}; do
  VERIF_NO_EVIDENCE=1 VERIF_WORKER=/var/tmp/vworker-cover VERIF_COVER=/var/tmp/cov bin/vcheck run $p --tier quick 2>&1 | grep SUMMARY | cut -c1-110
done
(cd $W && go tool covdata textfmt -i=/var/tmp/cov -o=/var/tmp/cov.out && go tool cover -func=/var/tmp/cov.out > /var/tmp/cov.func && tail -1 /var/tmp/cov.func)
rm -rf /var/tmp/cov
