#!/bin/bash
# Re-bases the seeded patches that no longer apply to /repo HEAD (later repairs changed lines nearby):
# three-way apply in a scratch worktree; kept only when it applies without conflict and the tree builds.
# Not used by any registered command.
export GOFLAGS=-mod=mod GOPROXY=off GOSUMDB=off GOTOOLCHAIN=local
wt=/var/tmp/rebase-wt
git -C /repo worktree add -q --detach $wt HEAD || exit 2
head=$(git -C /repo rev-parse --short HEAD)
for d in /verif/seeded/*/; do
  id=$(basename $d)
  git -C /repo apply --check $d/patch.diff 2>/dev/null && continue
  git -C $wt reset -q --hard HEAD
  if git -C $wt apply -3 $d/patch.diff >/dev/null 2>&1 && ! git -C $wt diff --name-only --diff-filter=U | grep -q .; then
    if (cd $wt && go build ./... ) >/dev/null 2>&1; then
      git -C $wt diff --cached HEAD > /var/tmp/rebased.diff
      if [ -s /var/tmp/rebased.diff ]; then
        cp /var/tmp/rebased.diff $d/patch.diff
        python3 - "$d/meta.json" "$head" <<'P'
import json,sys
m=json.load(open(sys.argv[1])); m['rebased']=f"patch re-based onto /repo {sys.argv[2]} by three-way apply (later repairs changed neighbouring lines); it builds there"
json.dump(m,open(sys.argv[1],'w'),indent=1)
P
        echo "rebased $id"; continue
      fi
    fi
    echo "BUILD-FAILS $id"
  else
    echo "CONFLICT $id"
  fi
done
git -C /repo worktree remove --force $wt
rm -f /var/tmp/rebased.diff
