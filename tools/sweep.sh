#!/bin/sh
# usage: tools/sweep.sh <tier> <seeds...>   e.g. tools/sweep.sh quick 2 3 4 5 6
# Runs every check at each seed without touching /verif/evidence (VERIF_NO_EVIDENCE=1: evidence
# and replay files go to a scratch directory). Meant for `vp run`; not a registered command.
tier=$1; shift
./setup.sh >/dev/null || exit 2
bad=0
for sd in "$@"; do
  for p in C01 C02 C03 C04 C05 C06 C07 C08 C09 C10 C11 C12 C13 C14 C15 C16 C17 C18 C19 C20; do
    VERIF_SEED=$sd VERIF_NO_EVIDENCE=1 bin/vcheck run $p --tier $tier > sweep.$p.$sd.out 2>&1
    rc=$?
    grep -h "^SUMMARY\|^VIOLATION\|^INCONCLUSIVE\|^BROKEN" sweep.$p.$sd.out | cut -c1-300
    [ $rc -ne 0 ] && { bad=$((bad+1)); echo "NONZERO seed=$sd $p rc=$rc"; }
  done
done
echo "sweep done: $bad non-zero exits"
