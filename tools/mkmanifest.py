#!/usr/bin/env python3
"""Writes /verif/MANIFEST.json (kept in a script so that the twenty entries stay consistent)."""
import json
P = {
 "C01": ("process monitor (exit status, panic text and stack, per-case CPU clock) over isolated child processes fed hostile, mutated, decorated and generated inputs",
         "no panic, fatal runtime error or CPU-budget overrun on ~72 k (quick) / ~1.4 M (thorough) logged cases: mutated and decorated generated sets, 42 hazard and revision-layout templates, pathological lexical texts up to the size bound, the repository's own YANG corpus; after every load the entry-level and node-level read API is walked (standalone deviation entries included); two texts nested a million levels deep (recorded finding); a call that blocks (no CPU consumed while a case is open) is a violation like one that burns its CPU budget"),
 "C02": ("reference-model monitor: independent RFC 7950 s.6 reader vs yang.Parse on bounded-exhaustive token-alphabet enumerations and grammar-directed random texts",
         "accept/reject verdict, keywords, argument strings, nesting and order agree on every string up to the length bound over the token alphabets (whole input and four framings; 2.8 M quick, ~100 M thorough, each space covered completely) and on random texts with layout noise"),
 "C03": ("reflection walker pairing every source statement with exactly one AST node by pointer identity + must-reject oracle derived from goyang's own keyword table",
         "random statement trees (300 k quick / 6 M thorough) with deliberate unknown keywords, duplicates, missing mandatory substatements, prefixed and degenerate extension keywords, non-module top-level statements"),
 "C04": ("invariant walker over the live Entry forest at the quiescent point after a clean Process (pointer identity, global visited set, Dir and rpc input/output) + expected-error oracle of the reference resolver + late-fault templates",
         "generated module sets (30 k quick / 400 k thorough), 13 late-fault templates and faults in the older of two revisions; every node reached is checked for name/key, parent pointer, single reachability, kind vs children/type/list attributes, choice children, leftover augments, recorded errors"),
 "C05": ("metamorphic monitor: R repetitions x P load-order permutations on fresh sets compared through a canonical dump; independent (file,line,column) order and duplicate check on every error list; byte comparison of repeated CLI runs",
         "twenty tie/conflict shapes (incl. rings of typedefs and groupings) and generated sets with type errors and up to three injected faults (650 sets quick / 20 k thorough), 48 x <=6 executions per set (quick), 128 x <=24 (thorough); map iteration orders are sampled by repetition, not enumerated"),
 "C06": ("reference-model monitor (reference expansion of uses with lexical binding) + sharing walker + independence monitor (with/without a module that changes one instance)",
         "30 k / 400 k generated sets with groupings at every scope, equal grouping names in different modules (twins sorting before and after), nested uses, childless directories, if-feature lists and extension statements; independence family (9 k / 150 k): one copy is changed by a deviation/augment or mutated through every exported slice and map, all other copies and the cached grouping must not move"),
 "C07": ("reference-model monitor (reference graft of augments to a fixpoint, expected errors) + offline checker over the hook trace of augment lookups and merges (exactly-once specification)",
         "generated sets with chained augments across modules and submodules in shuffled load order; per augment statement the trace must be skip* found merge, once; late-fault templates on the error side"),
 "C08": ("reference application of RFC 7950 7.20.3 in written order + frame monitor by path (run with vs without the deviating modules) + offline checker over the deviate hook trace (written order)",
         "20 k (quick) / 300 k (thorough) base/deviation cases, each repeated 16/48 times: targets at top level, in containers, lists, cases, groupings used twice, augments; values at the target, nine expected-error classes, everything else unchanged, ignore-not-supported option, two deviating modules, an older revision of the deviating module"),
 "C09": ("reference-model monitor: lexical typedef binder and derived-attribute inheritance computed from the abstract model",
         "30 k / 400 k generated sets with typedefs at all scopes, shadowing, chains, patterns (also posix-pattern) added at several use sites, enums, leafref paths, unions, fraction-digits, integer ranges, empty units, prefixes of imported modules and of their submodules; every attribute of the resolved type of every leaf compared"),
 "C10": ("exact interval-algebra reference (math/big) vs ParseRanges*, Contains, typedef chains through schemas, and the library's child-restriction routine reached through the verif hook accessor",
         "all one- and two-part restrictions over a 27-value boundary grid (0.57 M), 150 k / 1 M typedef chains over ten base types incl. decimal64 at every fraction-digits and unions, 1 M / 20 M child restrictions against random previously restricted parents, a decimal grid over all fraction-digits, malformed restrictions incl. sign forms"),
 "C11": ("graph-closure reference computed from the generated derivation graph + repetition monitor on the order of Values + pointer identity of identityref bases",
         "20 k (quick) / 400 k (thorough) random DAGs over 1-4 modules and their submodules, equal names and equal prefixes across modules, small import-prefix pool, identityrefs through typedefs, derivation chains of 150-400, cycles and dangling bases on the error side, each loaded 8/24 times in shuffled order"),
 "C12": ("reference-model monitor: config inheritance and namespace / instantiating-module attribution computed from the abstract model, compared on every node",
         "30 k / 400 k generated sets combining explicit config (also on key leaves) with uses, augment (also into choices and absent rpc input/output), include, choice/case, rpc/action/notification across modules, namespaces that differ only in case; 1.5 k / 30 k header sets with several revisions of one module (every node of every revision is attributed to the module of that name)"),
 "C13": ("four monitors: revision table under all load orders (with modules.add trace), include-by-revision binding, file chooser over generated directory layouts (with file.read trace), include == inline through canonical dumps",
         "8 k header sets x all load orders (prefix and path lookups after each), include sets x all orders, 6 k directory layouts with near-miss names and symbolic links, 25 k random splits into up to five submodules (quick; x7 thorough)"),
 "C14": ("RFC 7950 9.6.4.2/9.7.4.2 assignment reference in exact arithmetic vs Set/SetNext call sequences and schemas",
         "every member sequence up to length 3 (quick) / 4 (thorough) over names incl. the empty one x {implicit, 14 boundary values}, continuing after rejected calls (which must assign nothing), every 20th / 200th also through a module; explicit literals far beyond 64 bits, non-numeric, empty and signed-zero arguments through modules"),
 "C15": ("math/big reference for String, ParseInt, ParseDecimal, Less, Equal, Int, FromInt/FromUint",
         "boundary grid x sign x fraction-digits: round trips and Int for every number, Less/Equal for every ordered pair (2.2 M quick / 36 M thorough), literals with 0..300 fraction digits at every precision, random triples"),
 "C16": ("position oracle from the reference reader (1-based line, character column) + single-fault injection with a designated position",
         "150 k (quick) / 2 M (thorough) random layouts with tabs, multi-byte characters, comments and single-quoted strings of up to five lines, CR LF; eight lexical/syntactic fault kinds; 24 k / 200 k sets with one of 12 semantic fault kinds whose error must name the exact injected statement; 1.5 k / 30 k directory layouts in which every position must name the file that was opened"),
 "C17": ("pointer-identity round trip of Entry.Find against the reference tree, on trees that already matched the reference",
         "60 sampled (start, target) pairs per generated set (30 k / 400 k sets): absolute prefixed spelling from the start node's defining module, relative spelling through the common ancestor, one bogus step (must return nothing); input and output of every rpc and action looked up (Parent, Path, way back); lookups on trees held from before a reload; import prefixes that collide with the owner's prefix (1.5 k / 30 k header sets)"),
 "C18": ("history runner vs batch oracle: canonical dump and snapshots of the unexported typedef/identity dictionaries (verif accessors) of the live set compared with a fresh set after every process step",
         "12 k (quick) / 300 k (thorough) generated histories of loads, failed loads (four kinds, and texts with several top-level statements of which one is rejected), process, re-process, reads and cache clears; 22 kinds of semantic faults in good texts; late-arriving owners, imports, submodules with identities, namespace twins and newer revisions"),
 "C19": ("Go race detector (worker built with -race, every report is a violation) + concurrent-vs-sequential result equality, schedules perturbed at tag-guarded yield points",
         "400 (quick) / 12 k (thorough) rounds of 16 goroutines released from a barrier: independent pipelines (every fifth with faulty texts), shared readers (first-time namespace lookups, absolute and io lookups included), mixed; 48 / 480 cold-start processes in which the very first use of process-wide state is concurrent; arrival counts and distinct interleaving signatures in the evidence"),
 "C20": ("fault enumeration: instrumented underlying io.Writer with a byte budget vs reference renderer and per-byte provenance map",
         "every text up to the length bound x 7 prefixes x every division into Write calls (a seventh with empty writes interleaved) x every byte budget 0..len(output), the stated space covered completely; writes of 64 KiB-1 MiB; stacked indenting writers; underlying writers that break the io.Writer contract"),
}
# what the third session added to the workloads (appended to the descriptions above)
EXTRA = {
 "C01": "; hazard sets with derivation chains of 1200-2700 identities (time that grows faster than the square of the chain is a budget overrun); hazard templates with member lists that collide in compared types; reads through the nodes in Entry.Exts and Entry.Extra; templates of faults written in submodules, typedef'd unions that name themselves twice, required substatements present only as extensions; Find, FindModuleByPrefix and FindGrouping (nil visited set) called on every node the trees hand out",
 "C02": "; random texts contain statements of real YANG, keyword and argument, in every quoting style; concatenations of 14-53 pieces",
 "C03": "; one tree in ten has a statement with 10-50 substatements, shuffled; family processed: 6 k / 100 k generated sets whose syntax trees are walked as built and again after Process; texts with a second top-level statement",
 "C04": "; three sets in ten are processed twice, processed twice with the entry cache dropped in between, processed first on a part of the files, or get a module first as an older revision; late templates for an augment of a choice that brings a choice, a type given to a node that is no leaf, a chain of augments behind an implicit case, augments written in submodules; templates for an include of a submodule that belongs to another module, a late augment and a doubled not-supported written in a submodule",
 "C05": "; twenty shapes now (one identity in several revisions, late augments in conflict, source names with colons); one repetition in eight has a processing run after every load, one in eight a repeated run; shape 19 (orphan submodules chained by broken links), sibling names that differ in case only for the tool; shape 20 (an error in the tree of only one of two loaded revisions)",
 "C06": "; an unresolved name whose position lies inside a grouping is a C06 violation too; the constraints of copies: when, must, status and reference of the definition and of every use, compared per copy",
 "C07": "; templates for chains of augments behind an implicit case, relative paths that lead into the augment itself, augments without target written in a submodule; one recorded finding (a path that names an implicit case reaches the member)",
 "C08": "; inapplicable deviates on nodes that are removed afterwards, targets named without choice and case, a type for a node that is no leaf, units replaced by the empty string; ordered-by user, deviate statements in four layouts, DefaultValues after deviations of mandatory; a case of a choice with a default removed; deviating modules loaded from files with submodules fetched by the run; a newer submodule revision that nothing includes loaded beside the pinned ones",
 "C09": "; family longchains: 96 / 960 derivation chains of 3 to 13000 (thorough 30000) typedefs in every declaration order, over one or two modules; the tree family also runs the process modes listed under C04; patterns that repeat an inherited posix-pattern, references behind a declared but unbound prefix",
 "C10": "; one chain in five of depth two and more is spread over modules in which two files bind one prefix to different modules; chains whose last restriction arrives through a deviate replace; literals with more fraction digits than the type has",
 "C11": "; every third load has a processing run after each file, every third a repeated run, one in six a module that arrives first as an older revision; an identityref must point at the identity object of the latest revision; a revision-pinned family (bases and identityrefs through imports that name a revision), bases named twice, submodules that import under the prefix of their module; a dangling base reached through a pinned revision with includes",
 "C12": "; header sets in which a module changes its namespace from one revision to the next; include statements in shuffled order",
 "C13": "; rejected two-module texts that begin with a newer revision of a loaded module; splits with identities in the submodules and with includes that only another submodule states; module names with dots in the files family, an augment in every revision of a submodule in the includes family; a rejected read before the search path is set up; paths of on-demand input and output in the dump",
 "C14": "; every third schema is processed twice; the maps returned by NameMap and ValueMap are edited and the enumeration read again; member lists as the second of two same-kind members of a union; member lists that arrive through a deviate replace",
 "C16": "; the single error of a set must name the faulty statement and no other position; fault kinds for a range outside a typedef's own range and for identity bases that do not resolve; unterminated later pieces of a concatenation, lone slash tokens, fault kinds for deviates that cannot be applied and identity bases; unusual source names (blanks, colons, percent signs)",
 "C17": "; paths that leave out the choices and cases above a node (must name nothing unless the reference tree has such a node), data nodes named input and output, import prefixes that read like module names, absolute lookups from an input or output created on demand; paths that begin with the name of the module as a step",
 "C18": "; typedefs of unions and identityrefs against a late revision, late submodule revisions, a search path that grows by a later read; fetched modules that augment, files repaired after a rejected read, one witness history of a recorded finding; queries after a clean run compared with the same queries before a rejected load, a good read next to a rejected file, rejected texts that start with a newer revision, a fetched file that holds two modules and is processed twice",
 "C19": "; sets with texts the syntax tree builder refuses, sets loaded from files whose import names a revision that is not there (also as the shared set of the reader rounds); repeated defaults in every set and imports of modules that are nowhere",
 "C20": "; underlying writers that accept only part of the output without an error; writers that go on after a short write without error; prefixes that look like template directives; a bufio.Writer in its error state underneath",
}
LEVEL = {"C20": "fault_enumeration"}
checks = []
for pid in sorted(P):
    tech, what = P[pid]
    what += EXTRA.get(pid, "")
    checks.append({
        "property_id": pid,
        "quick_cmd": f"bin/vcheck run {pid} --tier quick",
        "thorough_cmd": f"bin/vcheck run {pid} --tier thorough",
        "evidence_file": f"/verif/evidence/{pid}.json",
        "replay_cmd_template": "bin/vcheck replay {path}",
        "engine": "vcheck",
        "level_claimed": {
            "category": LEVEL.get(pid, "exploration"),
            "text": "Runtime monitoring. " + what[0].upper() + what[1:] + ". The verdict is 'held on every execution produced' (counts, feature histograms, hook event counts and written-out samples are in the evidence file); it says nothing about inputs, map iteration orders or schedules the workloads did not produce.",
            "design_ref": f"DESIGN.md section 6 ({pid}), section 9 (as built), Appendix G (seeded changes caught)",
        },
        "level_note": "trusted base: the reference model or oracle named under 'technique' (written from RFC 7950 and the property text, not from goyang), the harness, the Go toolchain and race detector; the worker is rebuilt from /repo's working tree with -tags verif on every run; open findings in known_findings.json are reported as KNOWN-FINDING, everything else that violates is a VIOLATION",
        "technique": tech,
    })
m = {
    "version": 1,
    "setup_cmd": "./setup.sh",
    "hooks": {
        "guard": "verif",
        "enable": "go build -tags verif (the driver passes the tag when it rebuilds the worker from /repo)",
        "baseline_off_cmd": "cd /repo && GOPROXY=off GOSUMDB=off GOTOOLCHAIN=local go test -vet=off -count=1 ./...",
        "source_commits": ["9030c9b", "5d40d70", "7bb8e8c"],
        "add_only": True,
    },
    "engines": [{"name": "vcheck", "path": "/verif/harness", "serves_properties": sorted(P), "kind_free_text": "driver + child-process workers linked against /repo (replace directive), built with -tags verif; process, reference-model, metamorphic, invariant and event-log monitors; Go race detector for C19"}],
    "checks": checks,
    "not_applicable": [],
    "notes": "cwd=/verif; VERIF_SEED selects the case list (default 1); exit 0 held, 1 violation (VIOLATION line + replay file under /verif/replays), 2 inconclusive or broken run (INCONCLUSIVE/BROKEN line). Known findings: /verif/known_findings.json (read-only at run time; open entries print KNOWN-FINDING and do not fail, fixed entries suppress nothing). Seeded changes used to test the checks: /verif/seeded. Mutation-trial tooling: /verif/tools (not used by any registered command).",
}
json.dump(m, open('/verif/MANIFEST.json', 'w'), indent=1)
print(len(checks))
