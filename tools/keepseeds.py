#!/usr/bin/env python3
"""Copies confirmed seeded changes from the sub-agents' scratch worktrees into
/verif/seeded/<id>/ (patch.diff, the demonstration, meta.json) and records what the
mutation trial (tools/trial.sh) observed. Not used by any registered command."""
import json, os, shutil, sys, glob, re
src_root, log_root, dst_root = '/tmp/seed', os.environ.get('TRIAL_LOGS', '/root/trials'), '/verif/seeded'
offset = int(os.environ.get('SEED_OFFSET', '0'))  # round 2 stores patch1/patch2 as <prop>-3/<prop>-4
for d in sorted(glob.glob(src_root + '/C??/out')):
    prop = d.split('/')[-2]
    for k in (1, 2):
        patch = f'{d}/patch{k}.diff'
        log = f'{log_root}/{prop}-{k}.log'
        if not (os.path.exists(patch) and os.path.exists(log)):
            continue
        lines = open(log).read().splitlines()
        if not any(l.startswith('suite: pass') for l in lines) or not any(re.match(r'demo with change: exit [1-9]', l) for l in lines):
            print('not confirmed, skipped:', prop, k)
            continue
        dst = f'{dst_root}/{prop}-{k+offset}'
        os.makedirs(dst, exist_ok=True)
        shutil.copy(patch, dst + '/patch.diff')
        if os.path.isdir(f'{d}/demo{k}'):
            shutil.rmtree(dst + '/demo', ignore_errors=True)
            shutil.copytree(f'{d}/demo{k}', dst + '/demo')
            # the demonstration is a program of its own; keep it out of any Go build of /verif
            for f in glob.glob(dst + '/demo/*.go'):
                os.rename(f, f + '.txt')
            how = 'copy demo/main.go.txt to <goyang checkout>/out/demo/main.go and run `go run ./out/demo` there: exit 1 with patch.diff applied, exit 0 without'
        else:
            shutil.copy(f'{d}/demo{k}_test.go', dst + '/demo_test.go.txt')
            how = 'copy demo_test.go.txt to <goyang checkout>/pkg/yang/zz_demo_test.go and run `go test -run "Demo|Seed" ./pkg/yang/`: fails with patch.diff applied, passes without'
        m = json.load(open(f'{d}/meta{k}.json'))
        caught = [l.split(':')[0].split()[1] for l in lines if l.startswith('CAUGHT')]
        missed = [l.split()[1] for l in lines if l.startswith('MISSED')]
        meta = {
            'id': f'{prop}-{k+offset}',
            'round': 1 + offset // 2,
            'property': prop,
            'summary': m.get('summary'),
            'needs_to_manifest': m.get('needs_to_manifest'),
            'files_changed': m.get('files_changed'),
            'demonstration': how,
            'confirmed': 'tools/trial.sh on a scratch worktree of /repo HEAD: patch applies, go build + go vet ok, repository suite passes, demonstration exits non-zero with the change (and zero on the clean tree, checked by the author of the change and again here for a sample)',
            'checks_run': {'tier': 'quick', 'caught_by': caught, 'not_caught_by': missed, 'log': lines},
        }
        json.dump(meta, open(dst + '/meta.json', 'w'), indent=1)
        print('kept', prop, k, 'caught by', caught, 'missed by', missed)
