#!/bin/bash
# Re-runs the trial of seeds kept in /verif/seeded against /repo HEAD (after a re-base, or as the final
# sweep): tools/retrialseeded.sh <id>...   The checks run are those the seed's meta.json lists as having
# caught it (and its own property). Updates checks_run in meta.json. Not used by any registered command.
for id in "$@"; do
  d=/verif/seeded/$id; prop=${id%%-*}
  tmp=/var/tmp/rts-$$/$id; rm -rf $tmp; mkdir -p $tmp
  cp $d/patch.diff $tmp/patch1.diff
  if [ -f $d/demo/main.go.txt ]; then mkdir -p $tmp/demo1; cp $d/demo/main.go.txt $tmp/demo1/main.go; fi
  checks=$(python3 -c "
import json;m=json.load(open('$d/meta.json'));c=m.get('checks_run',{}).get('caught_by',[]);print(' '.join(dict.fromkeys(c+['$prop'])))")
  /verif/tools/trial.sh $tmp 1 $checks > $tmp/log 2>&1
  python3 - "$d/meta.json" "$tmp/log" "$(git -C /repo rev-parse --short HEAD)" <<'P'
import json,sys
m=json.load(open(sys.argv[1])); lines=open(sys.argv[2]).read().splitlines()
caught=[l.split(':')[0].split()[1] for l in lines if l.startswith('CAUGHT')]
missed=[l.split()[1] for l in lines if l.startswith('MISSED')]
m.setdefault('checks_run',{}).update({'tier':'quick','caught_by':caught,'not_caught_by':missed,'log':lines,'at':'/repo '+sys.argv[3]})
json.dump(m,open(sys.argv[1],'w'),indent=1)
print(m['id'],'caught',caught,'missed',missed,[l for l in lines if 'PATCH' in l or 'DOES-NOT' in l or 'suite: FAIL' in l])
P
done
rm -rf /var/tmp/rts-$$
