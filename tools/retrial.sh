#!/bin/bash
# tools/retrial.sh <prop> <k> [checks...]  - re-runs one round trial, log replaced
logs=${TRIAL_LOGS:-/root/trials6}
p=$1; k=$2; shift 2
checks=${@:-$p}
/verif/tools/trial.sh /tmp/seed/$p/out $k $checks > $logs/$p-$k.log 2>&1
echo "$p-$k: $(grep -h 'suite:\|demo with\|CAUGHT\|MISSED\|PATCH\|DOES-NOT' $logs/$p-$k.log | cut -c1-260 | tr '\n' '|')"
