#!/bin/bash
# Mutation trial (not used by any registered command): applies one seeded change to a
# scratch worktree of /repo, confirms that it compiles, passes the repository's own
# suite and fails its demonstration, then runs the given checks against the scratch
# copy through the trial knobs VERIF_MODFILE / VERIF_REPO_DIR, and removes the worktree.
#   tools/trial.sh <dir with patchK.diff, demoK/ or demoK_test.go> <K> <property>...
# Output: one line per step; "CAUGHT <prop>" / "MISSED <prop>".
set -u
export GOFLAGS=-mod=mod GOPROXY=off GOSUMDB=off GOTOOLCHAIN=local
src=$1; k=$2; shift 2
id=$(basename "$(dirname "$src")")-$(basename "$src")-$k-$$
wt=/var/tmp/mut-$id
tier=${TRIAL_TIER:-quick}
git -C /repo worktree add -q --detach "$wt" HEAD || exit 2
cleanup() { git -C /repo worktree remove --force "$wt" 2>/dev/null; rm -rf "$wt" /var/tmp/mut-$id.mod /var/tmp/mut-$id.sum; }
trap cleanup EXIT
if ! git -C "$wt" apply "$src/patch$k.diff"; then echo "PATCH-DOES-NOT-APPLY"; exit 2; fi
( cd "$wt" && go build ./... && go vet ./pkg/... ) >/dev/null 2>&1 || { echo "DOES-NOT-BUILD-OR-VET"; exit 2; }
if ( cd "$wt" && go test -vet=off -count=1 ./... ) >/var/tmp/mut-$id.suite 2>&1; then echo "suite: pass"; else echo "suite: FAIL (seed invalid)"; tail -5 /var/tmp/mut-$id.suite; fi
rm -f /var/tmp/mut-$id.suite
# demonstration
if [ -d "$src/demo$k" ]; then
  mkdir -p "$wt/out" && cp -r "$src/demo$k" "$wt/out/"
  ( cd "$wt" && timeout 600 go run ./out/demo$k ) >/var/tmp/mut-$id.demo 2>&1; echo "demo with change: exit $? ($(grep -c -i fail /var/tmp/mut-$id.demo) FAIL lines)"
  rm -rf "$wt/out"
elif [ -f "$src/demo${k}_test.go" ]; then
  pkg=$(grep -o '"demo_pkg": *"[^"]*"' "$src/meta$k.json" | sed 's/.*: *"//;s/"//'); pkg=${pkg:-pkg/yang}
  cp "$src/demo${k}_test.go" "$wt/$pkg/zz_demo${k}_test.go"
  ( cd "$wt" && timeout 600 go test -vet=off -count=1 -run 'Demo|Seed' ./$pkg/ ) >/var/tmp/mut-$id.demo 2>&1; echo "demo with change: exit $?"
  rm -f "$wt/$pkg/zz_demo${k}_test.go"
fi
rm -f /var/tmp/mut-$id.demo
sed "s#=> /repo#=> $wt#" /verif/harness/go.mod > /var/tmp/mut-$id.mod; cp /repo/go.sum /var/tmp/mut-$id.sum
for p in "$@"; do
  out=$(cd /verif && VERIF_NO_EVIDENCE=1 VERIF_MODFILE=/var/tmp/mut-$id.mod VERIF_REPO_DIR=$wt bin/vcheck run $p --tier $tier 2>&1); rc=$?
  if [ $rc -eq 1 ]; then echo "CAUGHT $p: $(echo "$out" | grep -c '^VIOLATION') classes: $(echo "$out" | grep '^VIOLATION' | sed 's/.*monitor=\([^ ]*\) class=\([^ ]*\) count=\([0-9]*\).*/\1\/\2(\3)/' | tr '\n' ' ' | cut -c1-600)"; else echo "MISSED $p (exit $rc) $(echo "$out" | grep -v '^SUMMARY' | head -3 | cut -c1-300)"; fi
done
