#!/usr/bin/env python3
"""Prepares one scratch worktree of /repo HEAD per property under /tmp/seed/<id> with a TASK.md for
a sub-agent that is to write property-breaking changes (Appendix G of DESIGN.md). The task text holds
the property and one-sentence summaries of the changes of earlier rounds (so that a new round goes
elsewhere), and nothing about the checks. usage: mkseedtasks.py <round>"""
import json, glob, os, subprocess, sys, shutil
rnd = int(sys.argv[1])
props = [json.loads(l) for l in open('/verif/properties.jsonl')]
for p in props:
    pid = p['id']
    wt = f'/tmp/seed/{pid}'
    if os.path.isdir(wt):
        subprocess.run(['git', '-C', '/repo', 'worktree', 'remove', '--force', wt], check=False)
        shutil.rmtree(wt, ignore_errors=True)
    subprocess.run(['git', '-C', '/repo', 'worktree', 'prune'], check=True)
    subprocess.run(['git', '-C', '/repo', 'worktree', 'add', '--detach', wt, 'HEAD'], check=True, stdout=subprocess.DEVNULL, stderr=subprocess.DEVNULL)
    tried = []
    for f in sorted(glob.glob(f'/verif/seeded/{pid}-*/meta.json')):
        m = json.load(open(f))
        tried.append('- ' + (m.get('summary') or '').replace('\n', ' ').strip())
    a = p['anchors']
    text = f"""You are helping to evaluate a verification effort by seeding realistic bugs. You work ONLY inside the scratch git worktree {wt} (a checkout of the Go library openconfig/goyang: a YANG lexer, parser and schema resolver). Do NOT read or touch /verif or /repo or any other /tmp/seed/* directory; do not look for existing verification machinery anywhere. Everything you need is in {wt}.

Environment: no network. Before every go command: `export GOFLAGS=-mod=mod GOPROXY=off GOSUMDB=off GOTOOLCHAIN=local`. The repository's test suite is `cd {wt} && go test -vet=off -count=1 ./...` and it passes now (about 5 s).

Here is a semantic property the library is supposed to satisfy:

ID: {pid}
Title: {p['title']}
Statement: {p['statement']}
Quantifier: {p['quantifier']['text']}
Why tests cannot settle it: {p['why_tests_cant']}
Anchor files: {', '.join(a.get('files', []))}
Mechanisms meant to make it hold: {json.dumps(a.get('mechanism', []))}

YOUR TASK: produce TWO different, independent source changes to the library (non-test .go files under {wt}), each of which BREAKS this property while (a) the code still compiles (`go build ./...` and `go vet ./pkg/...` ok), and (b) the ENTIRE existing test suite still passes unchanged (do not edit, add to, or delete existing *_test.go files or testdata as part of the change). Each change should look like a realistic regression a maintainer could introduce (a refactoring slip, an "optimisation", a wrong boundary, a dropped copy/lock/reset/sort, a reordered step, state kept too long, ...), be small (a few lines), and - important - need something SPECIFIC to manifest: a particular interleaving, a fault at a particular point, a multi-step sequence of operations, an unusual input shape, a rare map iteration order, or two cooperating sites that each look fine alone. Do NOT produce changes that ordinary use or the first obvious test input would expose at once, and do not produce changes that make the library fail on every input. The two changes should attack different aspects / code sites of the property. Do not touch files named verif_on.go / verif_off.go or lines containing `verifEnabled`, and do not remove such lines. The change must break the property as STATED (read the statement and the quantifier closely): a change whose only effect lies outside what the statement promises does not count.

For each change k in {{1,2}} deliver, in {wt}/out/ (create it):
  - patch{{k}}.diff : `git diff` of the library change alone (made against the clean worktree; it must apply with `git apply` to a clean checkout of the same commit).
  - demo{{k}}/main.go : a demonstration program, runnable with `go run ./out/demo{{k}}` from {wt}, that exits NON-ZERO (printing lines that start with FAIL) with the change applied and exits 0 without it. It must be deterministic or, if the bug depends on map order / scheduling, repeat enough times to fail reliably (>99%) with the change and never fail without it. (Do not put _test.go files into out/: they would break `go test ./...`.)
  - meta{{k}}.json : {{"property": "{pid}", "summary": "<one sentence: what was changed>", "needs_to_manifest": "<what specific input / sequence / order / interleaving is needed>", "demo": "<exact commands to run the demo>", "files_changed": [...]}}

Procedure you must follow and report on: (1) make change 1 in the worktree; run `go build ./... && go vet ./pkg/... && go test -vet=off -count=1 ./...` - all must pass; run the demo - must fail; save patch1.diff via `git diff -- . ':!out' > out/patch1.diff`; then `git checkout -- .` (keep out/), run the demo again on the clean tree - must pass. (2) same for change 2. Leave the worktree clean at the end (only the untracked out/ directory and TASK.md, nothing else).

ALREADY TRIED in earlier rounds (do NOT repeat these or close variants of them - pick different code sites and different trigger conditions):
{chr(10).join(tried)}

This is round {rnd}: all of the changes listed above were eventually detected (many of the recent ones kept some state from one Process run into the next - a cached type, enumeration, lookup result or flag - so that family is well covered now; go elsewhere). Aim for changes that are harder to notice, and attack parts of the property statement that the list above has NOT touched yet (read the statement clause by clause and pick clauses without an entry above; also read the anchor files for code paths none of the entries touches). Good directions: (a) two cooperating sites that each look fine alone; (b) behaviour that depends on a multi-step sequence (several loads / several Process calls / a query between them); (c) inputs that combine two or three features (e.g. submodules + augments + deviations, groupings + choices + if-feature, typedef chains + unions + leafref, several revisions, rpc/action/notification input/output, leaf-lists with several defaults, anydata/anyxml, identityref typedefs, extensions, when/must decorations, min/max-elements, ordered-by, presence, unique, status); (d) boundaries (first/last element, empty collections, exactly-equal values, maximum values, very long or very deep inputs); (e) order dependence that only a rare iteration order or a particular declaration order exposes; (f) public API entry points and options that are rarely used (read the exported functions and fields of the anchor files).

ALSO (separately from your two changes): while reading and probing, note any input for which the CLEAN, unmodified tree already fails the property as stated (a crash, a wrong result, an unreported error, an outcome that varies from run to run). Report up to three such observations at the end under the heading CLEAN-TREE OBSERVATIONS, each with the exact input (module texts / calls) and the exact output you saw when you ran it on the clean tree; only report what you actually ran. Do not build your two changes on them.

ALREADY KNOWN about the clean tree (do not report these again, and do not build on them): (1) nesting of a million levels and more overflows the goroutine stack in the parser and in the tree builder; (2) with two revisions of a module that both include one submodule, only the latest revision's tree gets the submodule's nodes, and a submodule "belongs to" the latest revision of its module; (3) a module without a revision statement is rejected as a duplicate when loaded after a same-named module with a revision, and silently shadowed in the other order; (4) Entry.Find ignores the prefixes of all path steps but the first; (5) deviate delete of min-elements 0 / max-elements unbounded on a list that states no such bound is accepted; (6) an unknown statement that is a required field of the other module kind (belongs-to in a module) is reported at the module statement's position; (7) refine and uses-augment are parsed and not applied; re-listing enum members in a derived type replaces the list; number literals are read with Go base-0 syntax (0x10, 010, 1_0, +5); a nested include (a submodule included only by another submodule) contributes groupings but not typedefs or identities to the module; reads (ToEntry, Find that creates an absent rpc input/output, ToEntry of a synthetic case node) that build or create entries are not safe to run concurrently; (8) an augment (or deviation) path that names the implicit case of a shorthand choice member (/m:c/m:ch/m:x) is looked up before the implicit cases exist and reaches the member x itself; an implicit case carries the config of its member; (9) a recursive search-path entry (dir/...) visits files and subdirectories in one name order, a dangling name.yang symlink makes the loader move on, a foo.yang whose content is module bar is loaded as bar; (10) a deviation of the absent input or output of an rpc is accepted (the lookup creates the node); (11) structurally equal union members are merged, duplicate definitions (two groupings, typedefs or identities of one name in one scope or in a module and its submodule) are not reported, range on a string and length on an integer are accepted, restrictions and numbers tolerate non-YANG white space, a type name may be written ":t"; (12) Find with a prefix that the start node's file does not import records an error on the tree; (13) after a failed Write the indenting writer's line state reflects the whole chunk; extension statements of a leaf-list appear twice in Entry.Exts; a submodule that no loaded module includes is ignored by Process (its identities, typedefs and errors); (14) an import with a revision-date whose revision is not loaded binds to whatever revision of that module is loaded, and the named revision is looked for on the search path only when none is loaded (so a processing run between loads can change what the import denotes); (15) the grouping statement's own status/reference/extension statements are stamped on every top-level copy; (16) the input or output of an rpc that a deviation removed comes back, empty, when it is looked up; a second GetModule re-processes the set and leaves earlier trees behind; (17) EnumType does not survive a JSON round trip or a zero value; bits positions need not be unique; (18) typedef chains or nesting of several hundred thousand levels overflow the stack; nested uses towers expand exponentially.

Final answer: for each change, the one-sentence summary, what it needs to manifest, and the exact output lines showing suite-pass + demo-fail with the change and demo-pass without it. If you could only produce one valid change, say so plainly.
"""
    open(f'{wt}/TASK.md', 'w').write(text)
    print(pid, 'worktree at', subprocess.run(['git', '-C', wt, 'rev-parse', '--short', 'HEAD'], capture_output=True, text=True).stdout.strip(), len(tried), 'earlier changes listed')
