#!/usr/bin/env python3
"""usage: addfixed.py <id> <property> <commit> <what> <record tail>  - appends a 'fixed' entry to known_findings.json"""
import json, sys
i, prop, c, what, tail = sys.argv[1:6]
p = '/verif/known_findings.json'
d = json.load(open(p))
d['findings'] = [e for e in d['findings'] if e['id'] != i]
d['findings'].append({"id": i, "property": prop, "status": "fixed", "commit": c, "what": what, "record": f"fixed: property={prop} {c} {tail}"})
json.dump(d, open(p, 'w'), indent=1)
