#!/bin/bash
# Runs tools/trial.sh for every patch a sub-agent left in /tmp/seed/<prop>/out that has no log yet.
#   TRIAL_LOGS=/root/trials6 tools/trialround.sh [prop...]
logs=${TRIAL_LOGS:-/root/trials6}; mkdir -p "$logs"
props=${@:-$(ls /tmp/seed)}
for p in $props; do
  for k in 1 2; do
    [ -f /tmp/seed/$p/out/patch$k.diff ] || continue
    [ -s $logs/$p-$k.log ] && continue
    /verif/tools/trial.sh /tmp/seed/$p/out $k $p > $logs/$p-$k.log 2>&1
    echo "$p-$k: $(grep -h 'suite:\|demo with\|CAUGHT\|MISSED\|PATCH\|DOES-NOT' $logs/$p-$k.log | cut -c1-220 | tr '\n' '|')"
  done
done
