#!/bin/bash
# Regression seed from one of the repairs in /repo: the reverse of a fix commit, taken against
# /repo HEAD in a scratch worktree, tried with tools/trial.sh and kept as seeded/<prop>-own<n>.
#   tools/ownseed.sh <fix commit> <property> <n> [more properties to run]
# Not used by any registered command.
set -u
export GOFLAGS=-mod=mod GOPROXY=off GOSUMDB=off GOTOOLCHAIN=local
c=$1; prop=$2; n=$3; shift 3
work=/var/tmp/own/$prop-own$n
rm -rf "$work"; mkdir -p "$work"
wt=/var/tmp/ownwt-$$
git -C /repo worktree add -q --detach "$wt" HEAD || exit 2
( cd "$wt" && git revert --no-commit "$c" >/dev/null 2>&1 && git diff HEAD > "$work/patch1.diff" )
git -C /repo worktree remove --force "$wt"
[ -s "$work/patch1.diff" ] || { echo "no reverse patch for $c"; exit 2; }
/verif/tools/trial.sh "$work" 1 $prop "$@" | tee "$work/trial.log"
subj=$(git -C /repo log -1 --format=%s "$c")
dst=/verif/seeded/$prop-own$n
mkdir -p "$dst"; cp "$work/patch1.diff" "$dst/patch.diff"
python3 - "$dst" "$prop" "$n" "$c" "$subj" "$work/trial.log" <<'P'
import json,sys
dst,prop,n,c,subj,log=sys.argv[1:]
lines=open(log).read().splitlines()
caught=[l.split(':')[0].split()[1] for l in lines if l.startswith('CAUGHT')]
missed=[l.split()[1] for l in lines if l.startswith('MISSED')]
json.dump({"id":f"{prop}-own{n}","round":"own","property":prop,
 "summary":f"reverse of fix {c} (\"{subj}\")",
 "needs_to_manifest":"see the commit message of the fix",
 "demonstration":"none of its own: the failing input is in the commit message of the fix and in known_findings.json",
 "confirmed":"tools/trial.sh on a scratch worktree of /repo HEAD: the reverse patch applies, go build + go vet ok, repository suite passes",
 "checks_run":{"tier":"quick","caught_by":caught,"not_caught_by":missed,"log":lines},
 "history":"regression seed for a defect that the machinery (or a sub-agent's observation of the unchanged tree) found and that was repaired"},open(dst+'/meta.json','w'),indent=1)
print(prop,n,'caught',caught,'missed',missed)
P
