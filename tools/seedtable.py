#!/usr/bin/env python3
"""Regenerates the table of Appendix G in DESIGN.md from seeded/*/meta.json."""
import json, glob, re
rows = []
for f in sorted(glob.glob('/verif/seeded/*/meta.json')):
    m = json.load(open(f))
    summ = (m.get('summary') or '').replace('|', '/').replace('\n', ' ')
    if len(summ) > 230:
        summ = summ[:227] + '...'
    cr = m.get('checks_run', {})
    first = m.get('first_trial', {})
    missed_first = ', '.join(first.get('not_caught_by', [])) if first else ''
    classes = []
    for l in cr.get('log', []):
        if l.startswith('CAUGHT'):
            classes += re.findall(r'(\S+?/\S+?)\(\d+\)', l)
    rows.append(f"| {m['id']} | {summ} | {', '.join(cr.get('caught_by', [])) or '-'} | {', '.join(sorted(set(c.split('/',1)[1] for c in classes))[:4])} | {m.get('history','')} |")
table = "| id | change | caught by (quick) | classes reported | history |\n|---|---|---|---|---|\n" + "\n".join(rows) + "\n"
s = open('/verif/DESIGN.md').read()
a, b = '<!-- SEEDTABLE BEGIN -->\n', '<!-- SEEDTABLE END -->'
s = s[:s.index(a) + len(a)] + table + s[s.index(b):]
open('/verif/DESIGN.md', 'w').write(s)
print(len(rows), 'rows')
