#!/bin/sh
# Builds the driver from files on disk only (offline). Run once in /verif after a restore.
set -e
cd "$(dirname "$0")"
export GOFLAGS=-mod=mod GOPROXY=off GOSUMDB=off GOTOOLCHAIN=local
mkdir -p bin evidence
cp /repo/go.sum harness/go.sum
(cd harness && go build -o ../bin/vcheck ./cmd/vcheck)
echo "built bin/vcheck"
