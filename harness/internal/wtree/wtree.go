// Package wtree runs generated module sets through goyang and compares the
// resulting Entry forest with the reference resolver, node by node; it also
// runs the structural invariant walker and the Find round-trip checks. One
// comparison serves C04, C06, C07, C09, C12 and C17: every discrepancy has a
// class, and each property counts the classes that refute it.
package wtree

import (
	"fmt"
	"math/rand"
	"os"
	"path/filepath"
	"regexp"
	"sort"
	"strconv"
	"strings"

	"github.com/openconfig/goyang/pkg/yang"
	"verif/internal/hooklog"
	"verif/internal/job"
	"verif/internal/prng"
	"verif/internal/schema"
)

// A Disc is one discrepancy.
type Disc struct {
	Class  string
	Detail string
	Facts  map[string]any
}

// owners says which properties a class of discrepancy refutes.
func owners(class string, d *Disc) []string {
	viaA, _ := d.Facts["via_augment"].(bool)
	viaU, _ := d.Facts["via_uses"].(bool)
	switch {
	case strings.HasPrefix(class, "inv-"), class == "shared-entry", class == "parent-nil", class == "parent-wrong",
		class == "kind", class == "name", class == "node-errors", class == "rpc-nil", class == "type-nil":
		o := []string{"C04"}
		if class == "shared-entry" || class == "inv-shared" {
			o = append(o, "C06")
		}
		return o
	case class == "extra-child", class == "missing-child", class == "extra-io", class == "missing-io":
		o := []string{"C04"}
		if viaA || class == "extra-child" {
			o = append(o, "C07")
		}
		if viaU || class == "extra-child" {
			o = append(o, "C06")
		}
		return o
	case class == "readonly":
		return []string{"C12"}
	case class == "instmodule-submodule-tree":
		return []string{"C12"}
	case class == "namespace", class == "instmodule", class == "namespace-implicit-case":
		o := []string{"C12"}
		if viaA {
			o = append(o, "C07")
		}
		if viaU {
			o = append(o, "C06")
		}
		return o
	case strings.HasPrefix(class, "attr-"):
		o := []string{"C04"}
		if viaU {
			o = append(o, "C06")
		}
		if viaA {
			o = append(o, "C07")
		}
		return o
	case strings.HasPrefix(class, "type-"):
		return []string{"C09"}
	case strings.HasPrefix(class, "find-"):
		return []string{"C17"}
	case strings.HasPrefix(class, "unreported:augment"), strings.HasPrefix(class, "unreported:duplicate-child"):
		return []string{"C07", "C04"}
	case strings.HasPrefix(class, "unreported:unknown-grouping"):
		return []string{"C06"}
	case strings.HasPrefix(class, "unreported:type"):
		return []string{"C09"}
	case strings.HasPrefix(class, "spurious-error"):
		switch {
		case strings.Contains(d.Detail, "augment"):
			return []string{"C07"}
		case strings.Contains(d.Detail, "type"):
			if in, _ := d.Facts["in_grouping"].(bool); in {
				return []string{"C09", "C06"}
			}
			return []string{"C09"}
		case strings.Contains(d.Detail, "group"):
			return []string{"C06"}
		}
		return []string{"C04", "C06", "C07"}
	case strings.HasPrefix(class, "trace-"):
		return []string{"C07"}
	case strings.HasPrefix(class, "panic"):
		return []string{"*"}
	}
	return []string{"*"}
}

func kindOf(e *yang.Entry) string {
	switch e.Kind {
	case yang.LeafEntry:
		if e.ListAttr != nil {
			return "leaf-list"
		}
		return "leaf"
	case yang.DirectoryEntry:
		switch e.Node.(type) {
		case *yang.RPC, *yang.Action:
			return "rpc/action"
		}
		if e.ListAttr != nil {
			return "list"
		}
		if e.Parent == nil {
			return "module"
		}
		return "container"
	case yang.AnyDataEntry:
		return "anydata"
	case yang.AnyXMLEntry:
		return "anyxml"
	case yang.CaseEntry:
		return "case"
	case yang.ChoiceEntry:
		return "choice"
	case yang.InputEntry:
		return "input"
	case yang.OutputEntry:
		return "output"
	case yang.NotificationEntry:
		return "notification"
	}
	return "?"
}

type cmp struct {
	out  []Disc
	seen map[*yang.Entry]string
	x2e  map[*schema.X]*yang.Entry
	// counters of what was actually compared
	Nodes, Leaves, Lookups int
	Attrs, IfFs, Held      int
	CaseDrops, WrongPrefix int
	outLate                []Disc
	subOwner               string         // while walking a submodule's own tree: the module it belongs to
	Special                map[string]int // leaves whose type chain ends in an enumeration, leafref, decimal64, union
}

func (c *cmp) bad(x *schema.X, class, f string, a ...any) {
	facts := map[string]any{}
	if x != nil {
		facts["via_augment"] = x.ViaAugment
		facts["via_uses"] = x.ViaUses
		facts["implicit_case"] = x.Implicit
		facts["kind"] = x.Kind
		facts["inside_rpc_io"] = insideIO(x)
	}
	c.out = append(c.out, Disc{Class: class, Detail: fmt.Sprintf(f, a...), Facts: facts})
}

var errPos = regexp.MustCompile(`^([^:\s]+):(\d+):(\d+): `)

// insideGrouping tells whether the position an error names lies inside a grouping of the
// generated text (the printer indents by nesting depth, so the enclosing statements are the
// nearest lines above with less indentation).
func insideGrouping(files []File, msg string) bool {
	m := errPos.FindStringSubmatch(msg)
	if m == nil {
		return false
	}
	line, _ := strconv.Atoi(m[2])
	for _, f := range files {
		if f.Name != m[1] {
			continue
		}
		lines := strings.Split(f.Text, "\n")
		if line < 1 || line > len(lines) {
			return false
		}
		indent := func(l string) int { return len(l) - len(strings.TrimLeft(l, " ")) }
		ind := indent(lines[line-1])
		for k := line - 2; k >= 0 && ind > 0; k-- {
			if strings.TrimSpace(lines[k]) == "" || indent(lines[k]) >= ind {
				continue
			}
			ind = indent(lines[k])
			if strings.HasPrefix(strings.TrimSpace(lines[k]), "grouping ") {
				return true
			}
		}
	}
	return false
}

func insideIO(x *schema.X) bool {
	for n := x; n != nil; n = n.Parent {
		if n.Kind == "input" || n.Kind == "output" {
			return true
		}
	}
	return false
}

func (c *cmp) compare(x *schema.X, e *yang.Entry) {
	c.x2e[x] = e
	c.Nodes++
	p := x.Path()
	if prev, ok := c.seen[e]; ok {
		c.bad(x, "shared-entry", "one Entry object at %s and %s", prev, p)
		return
	}
	c.seen[e] = p
	xk := x.Kind
	if xk == "rpc" || xk == "action" {
		xk = "rpc/action"
	}
	if k := kindOf(e); k != xk {
		c.bad(x, "kind", "%s is a %s, reference %s", p, k, xk)
	}
	if x.Parent != nil {
		if e.Parent == nil {
			c.bad(x, "parent-nil", "%s has no Parent", p)
		} else if c.seen[e.Parent] != x.Parent.Path() {
			c.bad(x, "parent-wrong", "Parent of %s is %q", p, c.seen[e.Parent])
		}
	}
	if e.Name != x.Name {
		c.bad(x, "name", "%s is named %s", p, e.Name)
	}
	func() {
		defer func() {
			if rec := recover(); rec != nil {
				c.bad(x, "panic-accessor", "%s: %v", p, rec)
			}
		}()
		if ro := e.ReadOnly(); ro != x.ReadOnly() {
			c.bad(x, "readonly", "%s: ReadOnly %v, reference %v", p, ro, x.ReadOnly())
		}
		if ns := e.Namespace().Name; ns != x.Placing.NS {
			cls := "namespace"
			if x.Implicit {
				cls = "namespace-implicit-case"
			}
			c.bad(x, cls, "%s: namespace %s, reference %s", p, ns, x.Placing.NS)
		}
		if im, err := e.InstantiatingModule(); (err != nil || im != x.Placing.Name) && !x.Implicit {
			c.bad(x, "instmodule", "%s: instantiating module %q (%v), reference %s", p, im, err, x.Placing.Name)
		}
	}()
	if len(e.Errors) > 0 {
		c.bad(x, "node-errors", "%s carries errors after a clean Process: %v", p, e.Errors[0])
	}
	if !x.Implicit && x.Kind != "input" && x.Kind != "output" && x.Kind != "module" {
		var got []string
		for _, v := range e.Extra["if-feature"] {
			if val, ok := v.(*yang.Value); ok && val != nil {
				got = append(got, val.Name)
			} else {
				got = append(got, fmt.Sprintf("%T", v))
			}
		}
		if strings.Join(got, " ") != strings.Join(x.IfF, " ") {
			c.bad(x, "attr-if-feature", "%s: if-feature statements %v, reference %v", p, got, x.IfF)
		}
		if len(x.IfF) > 0 {
			c.IfFs++
		}
	}
	if src := x.Src; src != nil && !x.Implicit {
		// what the statement itself says: key, defaults, element bounds, mandatory
		if e.Key != src.Key {
			c.bad(x, "attr-key", "%s: key %q, written %q", p, e.Key, src.Key)
		}
		if strings.Join(e.Default, "\x00") != strings.Join(src.Default, "\x00") {
			c.bad(x, "attr-default", "%s: default %q, written %q", p, e.Default, src.Default)
		}
		if src.Min != nil && (e.ListAttr == nil || e.ListAttr.MinElements != *src.Min) {
			c.bad(x, "attr-min-elements", "%s: min-elements differs from the written %d", p, *src.Min)
		}
		if (src.Kind == "list" || src.Kind == "leaf-list") && (e.ListAttr == nil || e.ListAttr.OrderedByUser != src.OrdUser) {
			c.bad(x, "attr-ordered-by", "%s: ordered by user %v, written %v", p, e.ListAttr != nil && e.ListAttr.OrderedByUser, src.OrdUser)
		}
		c.Attrs++
	}
	if x.T != nil {
		c.Leaves++
		t := e.Type
		if t == nil {
			c.bad(x, "type-nil", "%s has no resolved type", p)
		} else {
			if t.Kind.String() != x.T.Kind {
				c.bad(x, "type-kind", "%s: base kind %v, reference %s", p, t.Kind, x.T.Kind)
			}
			if t.Units != x.T.Units {
				c.bad(x, "type-units", "%s: units %q, reference %q", p, t.Units, x.T.Units)
			}
			if t.HasDefault != x.T.HasDef || t.Default != x.T.Default {
				c.bad(x, "type-default", "%s: type default %q/%v, reference %q/%v", p, t.Default, t.HasDefault, x.T.Default, x.T.HasDef)
			}
			if t.Enum != nil || len(x.T.Enums) > 0 {
				var en []string
				if t.Enum != nil {
					en = t.Enum.Names()
				}
				we := append([]string{}, x.T.Enums...)
				sort.Strings(we)
				if strings.Join(en, " ") != strings.Join(we, " ") {
					c.bad(x, "type-enum", "%s: enum members %v, reference %v", p, en, we)
				}
			}
			mapsEqual := func(a, b map[string]int64) bool {
				if len(a) != len(b) {
					return false
				}
				for k, v := range a {
					if w, ok := b[k]; !ok || w != v {
						return false
					}
				}
				return true
			}
			if x.T.EnumMap != nil || t.Enum != nil {
				var got map[string]int64
				if t.Enum != nil {
					got = t.Enum.NameMap()
					for v, n := range t.Enum.ValueMap() {
						if w, ok := got[n]; !ok || w != v {
							c.bad(x, "type-enum-views", "%s: value %d maps to %q, which maps to %d", p, v, n, w)
						}
					}
				}
				if !mapsEqual(got, x.T.EnumMap) {
					c.bad(x, "type-enum-values", "%s: enum values %v, reference %v", p, got, x.T.EnumMap)
				}
			}
			if x.T.BitMap != nil || t.Bit != nil {
				var got map[string]int64
				if t.Bit != nil {
					got = t.Bit.NameMap()
				}
				if !mapsEqual(got, x.T.BitMap) {
					c.bad(x, "type-bits", "%s: bit positions %v, reference %v", p, got, x.T.BitMap)
				}
			}
			if x.T.Kind == "string" {
				wl := x.T.Length
				if wl == "" {
					wl = "0..18446744073709551615"
				}
				if gl := t.Length.String(); gl != wl && !(x.T.Length == "" && len(t.Length) == 0) {
					c.bad(x, "type-length", "%s: length %s, reference %s", p, gl, wl)
				}
				if x.T.Length != "" {
					c.Special["length"]++
				}
			}
			switch {
			case x.T.BitMap != nil:
				c.Special["bits"]++
			case len(x.T.Enums) > 0:
				c.Special["enumeration"]++
			case x.T.Path != "":
				c.Special["leafref"]++
			case x.T.Frac > 0:
				c.Special["decimal64"]++
			case len(x.T.Members) > 0:
				c.Special["union"]++
			}
			if t.Path != x.T.Path {
				c.bad(x, "type-path", "%s: path %q, reference %q", p, t.Path, x.T.Path)
			}
			if int(t.FractionDigits) != x.T.Frac {
				c.bad(x, "type-fraction-digits", "%s: fraction-digits %d, reference %d", p, t.FractionDigits, x.T.Frac)
			}
			var mk []string
			for _, m := range t.Type {
				mk = append(mk, m.Kind.String())
			}
			if strings.Join(mk, " ") != strings.Join(x.T.Members, " ") {
				c.bad(x, "type-union-members", "%s: union members %v, reference %v", p, mk, x.T.Members)
			}
			wr := x.T.Range
			if wr == "" {
				wr = map[string]string{"int8": "-128..127", "uint32": "0..4294967295"}[x.T.Kind]
			}
			if wr != "" {
				if gr := t.Range.String(); gr != wr {
					c.bad(x, "type-range", "%s: range %s, reference %s", p, gr, wr)
				}
				if x.T.Range != "" {
					c.Special["range"]++
				}
			}
			gp := append([]string{}, t.POSIXPattern...)
			wp := append([]string{}, x.T.Posix...)
			sort.Strings(gp)
			sort.Strings(wp)
			if strings.Join(gp, "\x00") != strings.Join(wp, "\x00") {
				c.bad(x, "type-posix-patterns", "%s: posix-patterns %v, reference %v", p, t.POSIXPattern, x.T.Posix)
			}
			if len(wp) > 0 {
				c.Special["posix-pattern"]++
			}
			got := append([]string{}, t.Pattern...)
			want := append([]string{}, x.T.Patterns...)
			sort.Strings(got)
			sort.Strings(want)
			if strings.Join(got, "\x00") != strings.Join(want, "\x00") {
				c.bad(x, "type-patterns", "%s: patterns %v, reference %v", p, t.Pattern, x.T.Patterns)
			}
		}
	}
	names := map[string]bool{}
	for k := range e.Dir {
		names[k] = true
	}
	for k := range x.Children {
		names[k] = true
	}
	var ks []string
	for k := range names {
		ks = append(ks, k)
	}
	sort.Strings(ks)
	for _, k := range ks {
		xc, ec := x.Children[k], e.Dir[k]
		switch {
		case xc == nil:
			c.bad(x, "extra-child", "%s has a child %s the reference does not have", p, k)
		case ec == nil:
			c.bad(xc, "missing-child", "%s lacks the child %s", p, k)
		default:
			c.compare(xc, ec)
		}
	}
	if x.Kind == "rpc" || x.Kind == "action" {
		if e.RPC == nil {
			if x.In != nil || x.Out != nil {
				c.bad(x, "rpc-nil", "%s has no RPC record", p)
			}
			return
		}
		for _, io := range []struct {
			x *schema.X
			e *yang.Entry
			n string
		}{{x.In, e.RPC.Input, "input"}, {x.Out, e.RPC.Output, "output"}} {
			switch {
			case io.x == nil && io.e == nil:
			case io.x == nil:
				c.bad(x, "extra-io", "%s has an %s the reference does not have", p, io.n)
			case io.e == nil:
				c.bad(io.x, "missing-io", "%s lacks its %s", p, io.n)
			default:
				c.compare(io.x, io.e)
			}
		}
	}
}

// invariants is the reference-free walker of C04, used for trees the resolver has no
// expectation for (submodule trees).
func (c *cmp) invariants(e, parent *yang.Entry, key string) {
	p := "?"
	func() {
		defer func() { recover() }()
		p = e.Path()
	}()
	if prev, ok := c.seen[e]; ok {
		c.bad(nil, "inv-shared", "one Entry object at %s and %s", prev, p)
		return
	}
	c.seen[e] = "submodule-tree:" + p
	c.Nodes++
	if parent != nil {
		if e.Parent != parent {
			c.bad(nil, "inv-parent", "%s does not point back to its parent", p)
		}
		if key != "" && e.Name != key {
			c.bad(nil, "inv-key", "%s is filed under %s", p, key)
		}
	}
	if len(e.Errors) > 0 {
		c.bad(nil, "inv-errors", "%s carries errors after a clean Process: %v", p, e.Errors[0])
	}
	if c.subOwner != "" {
		// everything in a submodule's own tree was placed by the submodule's text (augments
		// from elsewhere go to the owning module's tree), so it belongs to the owning module
		func() {
			defer func() { recover() }()
			if im, err := e.InstantiatingModule(); err != nil || im != c.subOwner {
				c.bad(nil, "instmodule-submodule-tree", "%s (in the tree of a submodule of %s): instantiating module %q (%v)", p, c.subOwner, im, err)
			}
		}()
	}
	isLeaf := e.Kind == yang.LeafEntry
	if isLeaf && (e.Type == nil || e.Dir != nil) {
		c.bad(nil, "inv-leaf", "%s: leaf without type or with children", p)
	}
	if !isLeaf && e.Dir == nil {
		c.bad(nil, "inv-dir-nil", "%s has no child map", p)
	}
	kw := ""
	if e.Node != nil && e.Node.Statement() != nil && (e.Kind == yang.LeafEntry || e.Kind == yang.DirectoryEntry) {
		kw = e.Node.Statement().Keyword
	}
	if (kw == "list" || kw == "leaf-list") != (e.ListAttr != nil) {
		c.bad(nil, "inv-listattr", "%s (%s): list attributes %v", p, kw, e.ListAttr != nil)
	}
	if len(e.Augments) > 0 {
		c.bad(nil, "inv-augments-left", "%s has %d unapplied augments", p, len(e.Augments))
	}
	for k, ch := range e.Dir {
		if e.Kind == yang.ChoiceEntry && ch.Kind != yang.CaseEntry {
			c.bad(nil, "inv-choice-child", "%s/%s is not a case", p, k)
		}
		c.invariants(ch, e, k)
	}
	if e.RPC != nil {
		if e.RPC.Input != nil {
			c.invariants(e.RPC.Input, e, "input")
		}
		if e.RPC.Output != nil {
			c.invariants(e.RPC.Output, e, "output")
		}
	}
}

func rootOf(x *schema.X) *schema.X {
	for x.Parent != nil {
		x = x.Parent
	}
	return x
}

func names(x *schema.X) []string {
	var n []string
	for ; x.Parent != nil; x = x.Parent {
		n = append([]string{x.Name}, n...)
	}
	return n
}

// chain0 lists the nodes from below the root down to x.
func chain0(x *schema.X) []*schema.X {
	var ch []*schema.X
	for ; x.Parent != nil; x = x.Parent {
		ch = append([]*schema.X{x}, ch...)
	}
	return ch
}

// findChecks does the C17 round trips on sampled (start, target) pairs.
func (c *cmp) findChecks(rng *rand.Rand, res *schema.Resolver, pairs int) {
	var all []*schema.X
	for x := range c.x2e {
		all = append(all, x)
	}
	sort.Slice(all, func(i, j int) bool { return all[i].Path() < all[j].Path() })
	if len(all) == 0 {
		return
	}
	for k := 0; k < pairs; k++ {
		a, b := all[rng.Intn(len(all))], all[rng.Intn(len(all))]
		ea, eb := c.x2e[a], c.x2e[b]
		if b.Parent == nil {
			continue
		}
		if a.DefFile != nil && ea.Node != nil {
			f := a.DefFile
			var rm *schema.Mod
			for m, rx := range res.Roots {
				if rx == rootOf(b) {
					rm = m
				}
			}
			pfx := ""
			if rm == f.Module() {
				pfx = f.Prefix
			} else {
				for _, im := range f.Imports {
					if im.Mod == rm {
						pfx = im.Prefix
					}
				}
			}
			if pfx != "" {
				ns := names(b)
				path := ""
				for i, n := range ns {
					if i == 0 || rng.Intn(2) == 0 {
						path += "/" + pfx + ":" + n
					} else {
						path += "/" + n
					}
				}
				func() {
					defer func() {
						if rec := recover(); rec != nil {
							c.bad(b, "find-panic", "Find(%s) from %s: %v", path, a.Path(), rec)
						}
					}()
					c.Lookups++
					if got := ea.Find(path); got != eb {
						c.bad(b, "find-absolute", "Find(%s) from %s did not return that node", path, a.Path())
					}
					i := rng.Intn(len(ns))
					bogus := ""
					for j, n := range ns {
						if j == i {
							n = "zz9"
						}
						bogus += "/" + pfx + ":" + n
					}
					c.Lookups++
					if got := ea.Find(bogus); got != nil {
						under := "plain"
						if i > 0 {
							// kind of the node the bogus step hangs under
							t := b
							for d := len(ns) - 1; d >= i; d-- {
								t = t.Parent
							}
							under = t.Kind
						}
						c.out = append(c.out, Disc{Class: "find-nonexistent", Detail: fmt.Sprintf("Find(%s) from %s returned %s", bogus, a.Path(), got.Path()), Facts: map[string]any{"bogus_step_under": under}})
					}
					// the name of the module is no step of a schema path (Path() prints it in
					// front, a path as written does not have it): unless the module has a top-level
					// node of that name, a path that begins with it names nothing
					if mroot := rootOf(b); mroot.Children[mroot.Name] == nil {
						mp := "/" + pfx + ":" + mroot.Name
						for _, n := range ns {
							mp += "/" + pfx + ":" + n
						}
						c.Lookups++
						if got := ea.Find(mp); got != nil {
							c.out = append(c.out, Disc{Class: "find-nonexistent", Detail: fmt.Sprintf("Find(%s) from %s returned %s: the first step is the name of the module, which has no node of that name", mp, a.Path(), got.Path()), Facts: map[string]any{"bogus_step_under": "module-name"}})
						}
					}
					// the path without the choices and cases on the way (what the path of the node
					// in a data tree would be) is no schema path: the node reached so far has no
					// child of that name
					var kept []string
					omitted := false
					for _, n := range chain0(b) {
						if n.Kind == "choice" || n.Kind == "case" {
							omitted = true
							continue
						}
						kept = append(kept, n.Name)
					}
					// (unless that path happens to name a node: a grouping used at two levels
					// gives equal names in different places)
					ref := rootOf(b)
					for _, n := range kept {
						if ref == nil {
							break
						}
						switch {
						case (ref.Kind == "rpc" || ref.Kind == "action") && n == "input":
							if ref = ref.In; ref == nil {
								ref = &schema.X{Kind: "input"} // (an absent one is created by the lookup)
							}
						case (ref.Kind == "rpc" || ref.Kind == "action") && n == "output":
							if ref = ref.Out; ref == nil {
								ref = &schema.X{Kind: "output"}
							}
						case ref.Kind == "rpc" || ref.Kind == "action":
							ref = nil
						default:
							ref = ref.Children[n]
						}
					}
					if omitted && len(kept) > 0 && ref == nil && b.Kind != "choice" && b.Kind != "case" {
						dp := ""
						for _, n := range kept {
							dp += "/" + pfx + ":" + n
						}
						c.Lookups++
						if got := ea.Find(dp); got != nil {
							c.out = append(c.out, Disc{Class: "find-nonexistent", Detail: fmt.Sprintf("Find(%s) from %s returned %s: the path leaves out the choices and cases above the node", dp, a.Path(), got.Path()), Facts: map[string]any{"bogus_step_under": "omitted-choice-and-case"}})
						}
					}
					// an inner step under the prefix of another module: a step is a qualified
					// name, and there is no child of that name in that module's namespace
					// (recorded finding c17-inner-step-prefixes-are-not-checked: goyang looks at
					// the prefix of the first step only)
					if len(chain0(b)) >= 2 {
						ch := chain0(b)
						var others []string // prefixes the start file binds to modules other than the one that placed the step
						k := 1 + rng.Intn(len(ch)-1)
						placing := ch[k].Placing
						if f.Module() != placing && f.Prefix != "" {
							others = append(others, f.Prefix)
						}
						for _, im := range f.Imports {
							if im.Mod != placing {
								others = append(others, im.Prefix)
							}
						}
						if len(others) > 0 && placing != nil {
							wrong := ""
							for q, x := range ch {
								px := pfx
								if q == k {
									px = others[rng.Intn(len(others))]
								}
								wrong += "/" + px + ":" + x.Name
							}
							c.Lookups++
							c.WrongPrefix++
							if got := ea.Find(wrong); got != nil {
								// (kept apart until the end of the case, so that this recorded finding
								// does not stop the stages that run only on sets without a discrepancy)
								c.outLate = append(c.outLate, Disc{Class: "find-ignores-inner-prefix", Detail: fmt.Sprintf("Find(%s) from %s returned %s although step %d is written under a prefix of another module than the one whose text placed %s", wrong, a.Path(), got.Path(), k+1, ch[k].Name), Facts: map[string]any{"bogus_step_under": "wrong-inner-prefix"}})
							}
						}
					}
					// the path with an explicit case step left out: a case is a step like any
					// other, so what stands inside it is not a child of the choice
					var chain []*schema.X
					for x := b; x.Parent != nil; x = x.Parent {
						chain = append([]*schema.X{x}, chain...)
					}
					for ci := 0; ci+1 < len(chain); ci++ {
						cx := chain[ci]
						if cx.Kind != "case" || cx.Implicit || cx.Parent == nil || cx.Parent.Children[chain[ci+1].Name] != nil {
							continue
						}
						short := ""
						for j, x := range chain {
							if j != ci {
								short += "/" + pfx + ":" + x.Name
							}
						}
						c.Lookups++
						c.CaseDrops++
						if got := ea.Find(short); got != nil {
							c.out = append(c.out, Disc{Class: "find-nonexistent", Detail: fmt.Sprintf("Find(%s) from %s returned %s although the case %s was left out of the path", short, a.Path(), got.Path(), cx.Name), Facts: map[string]any{"bogus_step_under": "case-left-out"}})
						}
						break
					}
					// a step that names no child, undone by ".." right after it: the rest of
					// the path is the true one, yet the lookup has already failed
					detour := ""
					for j, n := range ns {
						if j == i && i > 0 {
							detour += "/" + pfx + ":zz9/.."
						}
						detour += "/" + pfx + ":" + n
					}
					if i == 0 {
						detour += "/zz9/.."
					}
					c.Lookups++
					if got := ea.Find(detour); got != nil {
						c.out = append(c.out, Disc{Class: "find-nonexistent", Detail: fmt.Sprintf("Find(%s) from %s returned %s although zz9 names no child", detour, a.Path(), got.Path()), Facts: map[string]any{"bogus_step_under": "detour"}})
					}
				}()
			}
		}
		if rootOf(a) == rootOf(b) {
			na, nb := names(a), names(b)
			i := 0
			for i < len(na) && i < len(nb) && na[i] == nb[i] {
				i++
			}
			var parts []string
			for j := i; j < len(na); j++ {
				parts = append(parts, "..")
			}
			parts = append(parts, nb[i:]...)
			if len(parts) == 0 {
				parts = []string{"."}
			}
			path := strings.Join(parts, "/")
			c.Lookups++
			if got := ea.Find(path); got != eb {
				c.bad(b, "find-relative", "Find(%s) from %s did not return %s", path, a.Path(), b.Path())
			}
		}
	}
}

// heldTree: the caller keeps the trees it has, the set is processed again (which builds
// new trees), and lookups on the held trees go on. An absolute path into the start
// node's own module must stay inside the held tree: it returns that tree's node, not
// its twin in the tree built since.
func (c *cmp) heldTree(rng *rand.Rand, ms *yang.Modules) {
	if errs := ms.Process(); len(errs) > 0 {
		return
	}
	var all []*schema.X
	for x := range c.x2e {
		if x.Parent != nil {
			all = append(all, x)
		}
	}
	sort.Slice(all, func(i, j int) bool { return all[i].Path() < all[j].Path() })
	for k := 0; k < 20 && len(all) > 0; k++ {
		a, b := all[rng.Intn(len(all))], all[rng.Intn(len(all))]
		if rootOf(a) != rootOf(b) || a.DefFile == nil || a.DefFile.Module() == nil {
			continue
		}
		// the start node's defining file must belong to the module of the tree (a prefix that
		// names another module leaves the tree by design)
		var rm *schema.Mod
		for m := a.DefFile.Module(); m != nil; m = nil {
			rm = m
		}
		if rm == nil || rm.Name != rootOf(a).Name {
			continue
		}
		ea, eb := c.x2e[a], c.x2e[b]
		path := ""
		for _, n := range names(b) {
			path += "/" + a.DefFile.Prefix + ":" + n
		}
		c.Lookups++
		c.Held++
		func() {
			defer func() {
				if rec := recover(); rec != nil {
					c.bad(b, "find-panic", "Find(%s) on a held tree: %v", path, rec)
				}
			}()
			if got := ea.Find(path); got != eb {
				where := "nothing"
				if got != nil {
					where = "another object with path " + got.Path()
				}
				c.bad(b, "find-leaves-held-tree", "after a second Process, Find(%s) from %s of the tree held since the first returned %s", path, a.Path(), where)
			}
		}()
	}
}

// shorthandAugment loads the set once more together with a module that augments containers
// and lists which are shorthand members of a choice, spelling the target without the
// implicit case (goyang resolves augments before it inserts implicit cases; what such an
// augment means is outside C07's claim and is not judged here). The lookups are then judged
// on their own terms, without the reference: on the processed trees every node reachable by
// walking must be what its absolute path leads to, from the root and from a deep node, and a
// step that names no child must lead nowhere. This is the situation in which the tree was
// looked into (by the augment) before it got its final shape.
func (c *cmp) shorthandAugment(rng *rand.Rand, res *schema.Resolver, files []File, count func(string, int64)) {
	type target struct {
		rm   *schema.Mod
		path []string
	}
	var ts []target
	var xs []*schema.X
	for x := range c.x2e {
		xs = append(xs, x)
	}
	sort.Slice(xs, func(i, j int) bool { return xs[i].Path() < xs[j].Path() })
	for _, x := range xs {
		if x.Parent == nil || !x.Parent.Implicit || (x.Kind != "container" && x.Kind != "list") {
			continue
		}
		ok := true
		var steps []string
		for n := x; n.Parent != nil; n = n.Parent {
			if n.Implicit {
				if n != x.Parent {
					ok = false
				}
				continue
			}
			steps = append([]string{n.Name}, steps...)
		}
		var rm *schema.Mod
		for m, rx := range res.Roots {
			if rx == rootOf(x) {
				rm = m
			}
		}
		if ok && rm != nil {
			ts = append(ts, target{rm, steps})
		}
	}
	if len(ts) == 0 {
		return
	}
	rng.Shuffle(len(ts), func(a, b int) { ts[a], ts[b] = ts[b], ts[a] })
	if len(ts) > 2 {
		ts = ts[:2]
	}
	var b strings.Builder
	b.WriteString("module zzsa {\n  namespace \"urn:zzsa\";\n  prefix zzsa;\n")
	seen := map[string]bool{}
	for k, t := range ts {
		if !seen[t.rm.Name] {
			seen[t.rm.Name] = true
			fmt.Fprintf(&b, "  import %s { prefix t%s; }\n", t.rm.Name, t.rm.Name)
		}
		_ = k
	}
	for k, t := range ts {
		p := ""
		for _, st := range t.path {
			p += "/t" + t.rm.Name + ":" + st
		}
		fmt.Fprintf(&b, "  augment %q {\n    leaf zzsal%d { type string; }\n    container zzsab%d { leaf deep { type string; } }\n  }\n", p, k, k)
	}
	b.WriteString("}\n")
	ms := yang.NewModules()
	for _, f := range files {
		if err := ms.Parse(f.Text, f.Name); err != nil {
			return
		}
	}
	if err := ms.Parse(b.String(), "zzsa.yang"); err != nil {
		return
	}
	if errs := ms.Process(); len(errs) > 0 {
		count("shorthand_augment_sets_with_errors", 1)
		return
	}
	count("shorthand_augment_sets", 1)
	// the very path text the augment used, looked up again from the augmenting module once
	// the trees have their final shape: it names the implicit case now (the node reached by
	// walking the same steps), not the member the augment found before the case existed
	if zr := yang.ToEntry(ms.Modules["zzsa"]); zr != nil {
		for _, t := range ts {
			mod := ms.Modules[t.rm.Name]
			if mod == nil {
				continue
			}
			want := yang.ToEntry(mod)
			p := ""
			for _, st := range t.path {
				p += "/t" + t.rm.Name + ":" + st
				switch {
				case want == nil:
				case want.RPC != nil && st == "input":
					want = want.RPC.Input
				case want.RPC != nil && st == "output":
					want = want.RPC.Output
				default:
					want = want.Dir[st]
				}
			}
			c.Lookups++
			if got := zr.Find(p); got != want || want == nil {
				where := "nothing"
				if got != nil {
					where = fmt.Sprintf("the %v %s", got.Kind, got.Path())
				}
				c.out = append(c.out, Disc{Class: "find-absolute", Detail: fmt.Sprintf("Find(%s) from the module whose augment used that path returned %s, walking the steps leads elsewhere", p, where), Facts: map[string]any{"shorthand_augment": true}})
				return
			}
		}
	}
	for _, t := range ts[:1] {
		mod := ms.Modules[t.rm.Name]
		if mod == nil {
			continue
		}
		root := yang.ToEntry(mod)
		pfx := t.rm.Prefix
		var deep *yang.Entry
		var walk func(e *yang.Entry, path string, d int)
		var nodes []struct {
			e    *yang.Entry
			path string
		}
		walk = func(e *yang.Entry, path string, d int) {
			if e == nil || d > 40 {
				return
			}
			if path != "" {
				nodes = append(nodes, struct {
					e    *yang.Entry
					path string
				}{e, path})
				if len(e.Dir) == 0 && e.RPC == nil && (deep == nil || d > 3) {
					deep = e
				}
			}
			var ks []string
			for k := range e.Dir {
				ks = append(ks, k)
			}
			sort.Strings(ks)
			for _, k := range ks {
				walk(e.Dir[k], path+"/"+pfx+":"+k, d+1)
			}
			if e.RPC != nil {
				walk(e.RPC.Input, path+"/"+pfx+":input", d+1)
				walk(e.RPC.Output, path+"/"+pfx+":output", d+1)
			}
		}
		walk(root, "", 0)
		starts := []*yang.Entry{root}
		// (a start node defined in another file may not know the prefix; the root and a node
		// of the module's own text do)
		if deep != nil && deep.Node != nil && yang.RootNode(deep.Node) == mod {
			starts = append(starts, deep)
		}
		for _, n := range nodes {
			for _, st := range starts {
				func() {
					defer func() {
						if rec := recover(); rec != nil {
							c.bad(nil, "find-panic", "Find(%s): %v", n.path, rec)
						}
					}()
					c.Lookups++
					if got := st.Find(n.path); got != n.e {
						where := "nothing"
						if got != nil {
							where = fmt.Sprintf("the %v %s", got.Kind, got.Path())
						}
						c.out = append(c.out, Disc{Class: "find-absolute", Detail: fmt.Sprintf("after an augment of a shorthand choice member: Find(%s) from %s returned %s, walking leads to the %v %s", n.path, st.Path(), where, n.e.Kind, n.e.Path()), Facts: map[string]any{"shorthand_augment": true}})
					}
					c.Lookups++
					if got := st.Find(n.path + "/" + pfx + ":zz9"); got != nil {
						c.out = append(c.out, Disc{Class: "find-nonexistent", Detail: fmt.Sprintf("after an augment of a shorthand choice member: Find(%s/%s:zz9) returned %s", n.path, pfx, got.Path()), Facts: map[string]any{"bogus_step_under": "shorthand-augment"}})
					}
				}()
			}
			if len(c.out) > 0 {
				return
			}
		}
	}
}

// implicitIO looks up the input and output of every rpc and action, written or not
// (Find creates an absent one on demand): the node returned must belong to that very rpc
// or action - its Parent, its Path and the way back through ".." - also when the rpc or
// action is one of several copies of a grouping or augment.
func (c *cmp) implicitIO(res *schema.Resolver) {
	var all []*schema.X
	for x := range c.x2e {
		if x.Kind == "rpc" || x.Kind == "action" {
			all = append(all, x)
		}
	}
	sort.Slice(all, func(i, j int) bool { return all[i].Path() < all[j].Path() })
	seen := map[*yang.Entry]string{}
	for _, x := range all {
		e := c.x2e[x]
		for _, io := range []string{"input", "output"} {
			func() {
				defer func() {
					if rec := recover(); rec != nil {
						c.bad(x, "find-panic", "Find(%s) from %s: %v", io, x.Path(), rec)
					}
				}()
				c.Lookups++
				got := e.Find(io)
				switch {
				case got == nil:
					c.bad(x, "find-io", "Find(%s) from %s returned nothing", io, x.Path())
				case got.Parent != e:
					c.bad(x, "find-io", "Find(%s) from %s returned a node whose Parent is %s", io, x.Path(), got.Parent.Path())
				case got.Path() != e.Path()+"/"+io:
					c.bad(x, "find-io", "Find(%s) from %s returned %s", io, x.Path(), got.Path())
				case got.Find("..") != e:
					c.bad(x, "find-io", "Find(..) from the %s of %s does not lead back", io, x.Path())
				case seen[got] != "":
					c.bad(x, "find-io", "the %s of %s is the node already returned for %s", io, x.Path(), seen[got])
				default:
					seen[got] = x.Path()
					// and from there an absolute path leads anywhere, as from every other
					// node of the file the rpc or action was written in
					if x.DefFile == nil || e.Node == nil {
						break
					}
					var rm *schema.Mod
					for m, rx := range res.Roots {
						if rx == rootOf(x) {
							rm = m
						}
					}
					pfx := ""
					if rm == x.DefFile.Module() {
						pfx = x.DefFile.Prefix
					} else {
						for _, im := range x.DefFile.Imports {
							if im.Mod == rm {
								pfx = im.Prefix
							}
						}
					}
					if pfx == "" {
						break
					}
					path := ""
					for _, n := range names(x) {
						path += "/" + pfx + ":" + n
					}
					c.Lookups++
					if back := got.Find(path); back != e {
						c.bad(x, "find-absolute", "Find(%s) from the %s of %s did not return the %s", path, io, x.Path(), x.Kind)
					}
				}
			}()
		}
	}
}

// Case is the replayable form of one generated set.
type Case struct {
	Files []File `json:"files"`
}
type File struct {
	Name string `json:"name"`
	Text string `json:"text"`
}

// Features summarises what a generated set contains (for the evidence histogram).
func features(g *schema.Gen) []string {
	var f []string
	subs, augs, imports := 0, 0, 0
	for _, m := range g.Mods {
		if m.Sub {
			subs++
		}
		augs += len(m.Augments)
		imports += len(m.Imports)
	}
	if subs > 0 {
		f = append(f, "submodules")
	}
	if augs > 0 {
		f = append(f, "augments")
	}
	if augs > 1 {
		f = append(f, "several-augments")
	}
	if imports > 0 {
		f = append(f, "imports")
	}
	if len(g.Mods) > 2 {
		f = append(f, "three-or-more-files")
	}
	return f
}

// Run is the tree family for C04, C06, C07, C09, C12 and C17.
func Run(j *job.Job, s *job.Sink) {
	for i := j.Start; i < j.Start+j.Count; i++ {
		rng := prng.For(j.Seed, "tree", j.Family, i) // the same sets for every property
		// one set in eight is allowed unknown or cyclic type references (the error side of C09)
		g := &schema.Gen{R: rng, Typedefs: true, TypeErrors: rng.Intn(8) == 0, Posix: rng.Intn(2) == 0, IfFeatures: rng.Intn(2) == 0, IONames: true}
		g.Build()
		res := &schema.Resolver{Mods: g.Mods}
		res.Resolve()
		order := append([]*schema.Mod{}, g.Mods...)
		rng.Shuffle(len(order), func(a, b int) { order[a], order[b] = order[b], order[a] })
		var cs Case
		for _, m := range order {
			cs.Files = append(cs.Files, File{m.Name + ".yang", schema.Print(m)})
		}
		if g.Posix {
			at := rng.Intn(len(cs.Files) + 1)
			cs.Files = append(cs.Files[:at], append([]File{{"openconfig-extensions.yang", schema.OCXText}}, cs.Files[at:]...)...)
		}
		s.Current(i, cs)
		s.Count("sets", 1)
		for _, f := range features(g) {
			s.Count("feature:"+f, 1)
		}
		c := &cmp{seen: map[*yang.Entry]string{}, x2e: map[*schema.X]*yang.Entry{}, Special: map[string]int{}}
		func() {
			defer func() {
				if rec := recover(); rec != nil {
					c.bad(nil, "panic-process", "%v", rec)
				}
			}()
			ms := yang.NewModules()
			// One set in three keeps a record of its uses statements on the entries
			// (ParseOptions.StoreUses): a record, nothing else - the trees are the same.
			if len(cs.Files) > 0 && len(cs.Files[0].Text)%3 == 0 {
				ms.ParseOptions.StoreUses = true
				s.Count("sets_with_stored_uses", 1)
			}
			var errs []error
			// One set in six is loaded the other way: the files are on disk in a search-path
			// directory, only the modules nobody imports are read explicitly, and Process
			// fetches everything else while it links imports and includes. The result must
			// be the same schema.
			fromDisk := rng.Intn(6) == 0
			var dir string
			if fromDisk {
				dir, _ = os.MkdirTemp(".", "disk")
				defer os.RemoveAll(dir)
				for _, f := range cs.Files {
					os.WriteFile(filepath.Join(dir, f.Name), []byte(f.Text), 0o644)
				}
				ms.AddPath(dir)
				s.Count("sets_loaded_from_the_search_path", 1)
			}
			imported := map[string]bool{}
			for _, m := range g.Mods {
				for _, im := range m.Imports {
					imported[im.Mod.Name] = true
				}
				if m.Sub {
					imported[m.Name] = true
				}
				if m.OCX {
					imported["openconfig-extensions"] = true
				}
			}
			// Three sets in ten do not get their one Process run on a freshly loaded set: the
			// set is processed twice (with or without the caller dropping the entry cache
			// in between), or a first run happens when only some of the files are loaded
			// (it may well fail). What is judged is the last run, which must give what a
			// single run on the complete set gives.
			mode := "single"
			if !fromDisk {
				mode = []string{"single", "single", "single", "single", "single", "single", "late-revision", "twice", "twice-cache-cleared", "staged"}[rng.Intn(10)]
			}
			// late-revision: a module that others import arrives twice. First, and before a
			// processing run, as an older revision in which every top-level typedef is a
			// boolean (and nothing else is defined); then as the newer revision that the
			// reference describes. Whatever the first run bound to the older one must move.
			var lateMod *schema.Mod
			lateNew := ""
			if mode == "late-revision" {
				for _, m := range g.Mods {
					if !m.Sub && len(m.Includes) == 0 && len(m.Revs) == 0 && len(m.Body.Typedefs) > 0 && imported[m.Name] {
						lateMod = m
						break
					}
				}
				if lateMod == nil {
					mode = "single"
				}
			}
			s.Count("process_mode:"+mode, 1)
			staged := map[string]bool{}
			func() {
				defer func() { recover() }() // a crash here shows again below, where it is reported
				switch mode {
				case "twice", "twice-cache-cleared":
					for _, f := range cs.Files {
						if ms.Parse(f.Text, f.Name) == nil {
							staged[f.Name] = true
						}
					}
					ms.Process()
					if mode == "twice-cache-cleared" {
						ms.ClearEntryCache()
					}
				case "late-revision":
					for _, f := range cs.Files {
						if f.Name == lateMod.Name+".yang" {
							hdr := fmt.Sprintf("  prefix %s;\n", lateMod.Prefix)
							revs := "  revision 2020-02-02;\n"
							switch len(f.Text) % 3 {
							case 1:
								// its revision statements stand oldest first, the first one older than
								// the other revision loaded: the latest date counts, not the first statement
								revs = "  revision 2018-01-01;\n  revision 2020-02-02;\n"
							case 2:
								revs = "  revision 2018-06-06;\n  revision 2020-02-02;\n  revision 2017-01-01;\n"
							}
							lateNew = strings.Replace(f.Text, hdr, hdr+revs, 1)
							old := fmt.Sprintf("module %s {\n  namespace %q;\n  prefix %s;\n  revision 2019-01-01;\n", lateMod.Name, lateMod.NS, lateMod.Prefix)
							for _, td := range lateMod.Body.Typedefs {
								old += fmt.Sprintf("  typedef %s { type boolean; }\n", td.Name)
							}
							ms.Parse(old+"}\n", lateMod.Name+"@2019-01-01.yang")
							staged[f.Name] = true
							continue
						}
						if ms.Parse(f.Text, f.Name) == nil {
							staged[f.Name] = true
						}
					}
					ms.Process()
				case "staged":
					n := 1 + rng.Intn(len(cs.Files))
					for _, i := range rng.Perm(len(cs.Files))[:n] {
						if ms.Parse(cs.Files[i].Text, cs.Files[i].Name) == nil {
							staged[cs.Files[i].Name] = true
						}
					}
					ms.Process()
				}
			}()
			evs := hooklog.Collect(func() {
				if lateNew != "" {
					if err := ms.Parse(lateNew, lateMod.Name+"@2020-02-02.yang"); err != nil {
						errs = append(errs, err)
					}
				}
				for _, f := range cs.Files {
					var err error
					switch {
					case staged[f.Name]:
						continue // loaded before the first run
					case !fromDisk:
						err = ms.Parse(f.Text, f.Name)
					case imported[strings.TrimSuffix(f.Name, ".yang")]:
						continue // left for Process to find
					default:
						err = ms.Read(strings.TrimSuffix(f.Name, ".yang"))
					}
					if err != nil {
						errs = append(errs, err)
					}
				}
				errs = append(errs, ms.Process()...)
			})
			// offline checker over the augment trace of this run (C07: exactly once)
			naug := 0
			for _, m := range g.Mods {
				naug += len(m.Augments)
			}
			tf, stmts, merges := hooklog.CheckAugments(evs, len(errs) == 0, naug)
			s.Count("hook_events", int64(len(evs)))
			for _, e := range evs {
				s.Count("hook:"+e.Name, 1)
			}
			s.Count("trace_augment_statements", int64(stmts))
			s.Count("trace_augment_merges", int64(merges))
			for _, f := range tf {
				c.out = append(c.out, Disc{Class: f.Class, Detail: f.Detail})
			}
			switch {
			case len(res.Errs) > 0 && len(errs) > 0:
				s.Count("both_report_errors", 1)
				s.Count("both_report_errors:"+res.Errs[0].Class, 1)
				return
			case len(res.Errs) > 0:
				c.bad(nil, "unreported:"+res.Errs[0].Class, "Process is clean, reference expects: %v", res.Errs[0])
				return
			case len(errs) > 0:
				c.bad(nil, "spurious-error", "%v", errs[0])
				// a name that does not resolve inside a grouping is C06's subject as well
				c.out[len(c.out)-1].Facts["in_grouping"] = insideGrouping(cs.Files, errs[0].Error())
				return
			}
			s.Count("clean_sets_compared", 1)
			if len(features(g)) >= 2 {
				s.Count("nontrivial", 1)
			}
			for m, x := range res.Roots {
				mod := ms.Modules[m.Name]
				if mod == nil {
					c.bad(nil, "module-missing", "%s", m.Name)
					continue
				}
				c.compare(x, yang.ToEntry(mod))
			}
			for _, sm := range ms.SubModules {
				if _, done := c.seen[yang.ToEntry(sm)]; !done {
					c.subOwner = sm.BelongsTo.Name
					c.invariants(yang.ToEntry(sm), nil, "")
					c.subOwner = ""
				}
			}
			if len(c.out) == 0 {
				c.findChecks(rng, res, 60)
				c.implicitIO(res)
			}
			if len(c.out) == 0 && j.Property == "C17" && i%4 == 0 {
				c.heldTree(rng, ms)
			}
			if len(c.out) == 0 && j.Property == "C17" && i%4 == 1 {
				c.shorthandAugment(rng, res, cs.Files, func(k string, n int64) { s.Count(k, n) })
			}
		}()
		c.out = append(c.out, c.outLate...)
		s.Count("nodes_compared", int64(c.Nodes))
		s.Count("statement_attributes_compared", int64(c.Attrs))
		s.Count("nodes_with_if_features_compared", int64(c.IfFs))
		s.Count("leaf_types_compared", int64(c.Leaves))
		for k, v := range c.Special {
			s.Count("leaf_types_compared:"+k, int64(v))
		}
		s.Count("find_lookups", int64(c.Lookups))
		s.Count("find_lookups_on_held_trees", int64(c.Held))
		s.Count("find_lookups_with_a_case_left_out", int64(c.CaseDrops))
		s.Count("find_lookups_with_a_wrong_inner_prefix", int64(c.WrongPrefix))
		reported := map[string]bool{}
		for k := range c.out {
			d := &c.out[k]
			mine := false
			for _, o := range owners(d.Class, d) {
				if o == "*" || o == j.Property {
					mine = true
				}
			}
			if !mine {
				s.Count("discrepancies_owned_by_other_properties", 1)
				continue
			}
			if reported[d.Class] {
				continue // one record per class and case
			}
			reported[d.Class] = true
			s.Violation(i, j.CaseID(i), j.Property+".tree", d.Class, d.Detail, cs, d.Facts)
		}
		if i%2000 == 0 && len(c.out) == 0 {
			s.Sample(1, map[string]any{"files": len(cs.Files), "first_file": cs.Files[0].Text[:min(len(cs.Files[0].Text), 600)], "nodes_compared": c.Nodes, "find_lookups": c.Lookups})
		}
	}
}
