// Package prng gives every case its own generator, a pure function of
// (seed, property, family, index), so that case lists do not depend on sharding,
// timing or the order in which cases run.
package prng

import (
	"hash/fnv"
	"math/rand"
)

func mix(x uint64) uint64 {
	x += 0x9e3779b97f4a7c15
	x = (x ^ (x >> 30)) * 0xbf58476d1ce4e5b9
	x = (x ^ (x >> 27)) * 0x94d049bb133111eb
	return x ^ (x >> 31)
}

// For returns the generator of one case.
func For(seed int64, property, family string, index int64) *rand.Rand {
	h := fnv.New64a()
	h.Write([]byte(property))
	h.Write([]byte{0})
	h.Write([]byte(family))
	k := mix(uint64(seed)) ^ mix(h.Sum64()) ^ mix(uint64(index)*0x2545F4914F6CDD1D+1)
	return rand.New(rand.NewSource(int64(mix(k) >> 1)))
}
