// Package w05 is the workload and monitor of C05: the same texts and options
// must give the same result in every repetition and every load order.
package w05

import (
	"fmt"
	"os"
	"os/exec"
	"path/filepath"
	"regexp"
	"sort"
	"strconv"
	"strings"

	"github.com/openconfig/goyang/pkg/yang"
	"github.com/openconfig/goyang/pkg/yangentry"
	"verif/internal/dump"
	"verif/internal/faults"
	"verif/internal/job"
	"verif/internal/prng"
	"verif/internal/schema"
)

var posRe = regexp.MustCompile(`^([^:\s]+):(\d+):(\d+):`)

// a source without a name gives positions of the form "line 4:11"
var namelessRe = regexp.MustCompile(`^(line) (\d+):(\d+):`)

// sortedAndUnique checks an error list independently of goyang's errorSort:
// entries that start with file:line:col must be ordered by (file, line, col) among
// themselves, and no two entries may be the same string.
func sortedAndUnique(errs []error) string {
	seen := map[string]bool{}
	type key struct {
		f    string
		l, c int
	}
	var prev *key
	for _, e := range errs {
		s := e.Error()
		if seen[s] {
			return "duplicate entry: " + s
		}
		seen[s] = true
		m := posRe.FindStringSubmatch(s)
		if m == nil {
			if m = namelessRe.FindStringSubmatch(s); m != nil {
				m[1] = ""
			}
		}
		if m == nil {
			continue
		}
		l, _ := strconv.Atoi(m[2])
		c, _ := strconv.Atoi(m[3])
		k := key{m[1], l, c}
		if prev != nil && (k.f < prev.f || (k.f == prev.f && (k.l < prev.l || (k.l == prev.l && k.c < prev.c)))) {
			return fmt.Sprintf("%s:%d:%d comes after %s:%d:%d", k.f, k.l, k.c, prev.f, prev.l, prev.c)
		}
		prev = &k
	}
	return ""
}

type file struct {
	Name string `json:"name"`
	Text string `json:"text"`
}

// conflictSet builds a small hand-shaped set with ties and conflicts (family "conflict").
func conflictSet(i int64, seed int64) []file {
	r := prng.For(seed, "C05", "conflict", i)
	pick := func(xs ...string) string { return xs[r.Intn(len(xs))] }
	var fs []file
	switch i % 24 {
	case 23: // a submodule whose import is nowhere to be found, a second submodule that includes it and uses one of its typedefs, and the module that includes both: where linking stops at the missing import, what the last run reports must not depend on what earlier runs, over the files loaded then, had linked (the repetitions with a run after every load see to that)
		miss := pick("zzgone", "zznone")
		fs = append(fs, file{"sa.yang", "submodule sa { belongs-to mm { prefix mm; } import " + miss + " { prefix g; }\n  typedef ta { type " + pick("int8", "string") + "; }\n  leaf la { type string; }\n}\n"})
		fs = append(fs, file{"sb.yang", "submodule sb { belongs-to mm { prefix mm; } include sa;\n  grouping gb { typedef tb { type ta; } leaf lb { type tb; } }\n  typedef tc { type union { type int8; type nosuch; } }\n}\n"})
		if r.Intn(3) > 0 {
			// (the module lists only the one submodule: the other one is reached through it alone)
			fs = append(fs, file{"mm.yang", "module mm { namespace \"urn:mm\"; prefix mm; include sb;\n  uses gb;\n}\n"})
		} else {
			fs = append(fs, file{"mm.yang", "module mm { namespace \"urn:mm\"; prefix mm; include sb; include sa;\n  leaf top { type ta; }\n  uses gb;\n}\n"})
		}
		if r.Intn(2) == 0 {
			fs = append(fs, file{"user.yang", "module user { namespace \"urn:user\"; prefix u; import mm { prefix mm; }\n  leaf ul { type string; }\n  uses mm:gb;\n}\n"})
		}
	case 22: // deviations of several modules whose targets are missing and whose paths differ only in how a number is written ("/t:1", "/t:01"): the errors have no position, their texts are equal as numbers field by field; equal errors must still be dropped and the rest must have one order
		p := []string{"/t:1", "/t:01", "/t:1", "/t:001", "/t:01"}
		r.Shuffle(len(p), func(a, b int) { p[a], p[b] = p[b], p[a] })
		fs = append(fs, file{"t.yang", "module t { namespace \"urn:t\"; prefix t; container c { leaf l { type string; } } }"})
		for k := 0; k < 3+r.Intn(3); k++ {
			fs = append(fs, file{fmt.Sprintf("d%d.yang", k), fmt.Sprintf("module d%d { namespace \"urn:d%d\"; prefix d%d; import t { prefix t; }\n  deviation \"%s\" { deviate %s }\n}\n", k, k, k, p[k], pick("not-supported;", "add { default x; }"))})
		}
	case 21: // two submodules that are included only through other submodules define a typedef of one name; the module refers to it without being able to see either: the outcome (an error) is the same every time
		ta, tb := pick("int8", "string"), pick("uint8", "boolean")
		fs = append(fs, file{"m.yang", "module m { namespace \"urn:m\"; prefix m; include s1; include s2;\n  leaf x { type t; }\n}\n"})
		fs = append(fs, file{"s1.yang", "submodule s1 { belongs-to m { prefix m; } include n1; leaf a { type string; } }"})
		fs = append(fs, file{"s2.yang", "submodule s2 { belongs-to m { prefix m; } include n2; leaf b { type string; } }"})
		fs = append(fs, file{"n1.yang", "submodule n1 { belongs-to m { prefix m; } typedef t { type " + ta + "; default \"1\"; } }"})
		fs = append(fs, file{"n2.yang", "submodule n2 { belongs-to m { prefix m; } typedef t { type " + tb + "; } }"})
	case 20: // two revisions of a module, and an error that arises in the tree of one of them only while augments are merged (the augment of a module that imports that revision by date brings a node the target has already): it is reported every time, whichever revision the walk over the modules meets first
		rv := pick("2020-01-01", "2021-01-01")
		fs = append(fs, file{"t-2020.yang", "module t { namespace \"urn:t\"; prefix t; revision 2020-01-01;\n  container c { leaf x { type string; } }\n}\n"})
		fs = append(fs, file{"t-2021.yang", "module t { namespace \"urn:t\"; prefix t; revision 2021-01-01;\n  container c { leaf x { type string; } leaf newer { type string; } }\n}\n"})
		fs = append(fs, file{"a.yang", "module a { namespace \"urn:a\"; prefix a; import t { prefix t; revision-date " + rv + "; }\n  augment /t:c { leaf " + pick("x", "x", "fresh") + " { type int8; } }\n}\n"})
		if r.Intn(2) == 0 {
			fs = append(fs, file{"b.yang", "module b { namespace \"urn:b\"; prefix b; import t { prefix t; }\n  augment /t:c { leaf " + pick("x", "other") + " { type int8; } }\n}\n"})
		}
	case 19: // submodules that no loaded module includes, chained by links that do not resolve: one includes the other and then imports a module that is missing, the other imports another missing module. Which errors come out must not depend on which of the two is linked first.
		n := 2 + r.Intn(2)
		for k := 0; k < n; k++ {
			inc := ""
			if k+1 < n {
				inc = fmt.Sprintf("include orph%d; ", k+1)
			}
			if r.Intn(4) == 0 && k > 0 {
				inc += "include orph0; "
			}
			fs = append(fs, file{fmt.Sprintf("orph%d.yang", k), fmt.Sprintf("submodule orph%d { belongs-to nomodule { prefix nm; } %simport missing%d { prefix mi; } leaf l%d { type string; } }", k, inc, k, k)})
		}
		fs = append(fs, file{"fine.yang", "module fine { namespace \"urn:fine\"; prefix fine; leaf ok { type string; } }"})
	case 18: // source names with colons in them (a path with a drive letter, a URL) next to a plain one, and errors on lines of one and two digits: the fields that the sort compares are then numbers in one entry and words in the other
		na, nb := pick("a", "c", "m1"), ""
		nb = na + ":" + pick("1x", "1z", "10x", "x", "b:c")
		var b1 strings.Builder
		b1.WriteString("module m1 { namespace \"urn:m1\"; prefix m1;\n")
		line := 2
		for q := 0; q < 2+r.Intn(3); q++ {
			if q > 0 {
				for skip := 7 + r.Intn(12); skip > 0; skip-- {
					b1.WriteString("\n")
					line++
				}
			}
			fmt.Fprintf(&b1, "augment \"/m1:nope%d\" { leaf a%d { type string; } }\n", line, q)
			line++
		}
		b1.WriteString("container c;\n}\n")
		fs = append(fs, file{na, b1.String()})
		fs = append(fs, file{nb, "module m2 { namespace \"urn:m2\"; prefix m2;\n" + strings.Repeat("\n", r.Intn(3)) + "augment \"/m2:nope\" { leaf a { type string; } }\n}\n"})
	case 17: // augments that can only be applied after the implicit cases exist (their path runs through one), from two or three modules: in conflict (one name added twice) or dependent (one augments what another brings)
		fs = append(fs, file{"t.yang", "module t { namespace \"urn:t\"; prefix t; container c { choice ch { container x { } leaf y { type string; } } } }"})
		names := []string{"p", "q", "r"}[:2+r.Intn(2)]
		for k, n := range names {
			body := fmt.Sprintf("augment /t:c/t:ch/t:x/t:x { leaf %s { type string; } }", pick("extra", "extra", "from"+n))
			if k > 0 && r.Intn(2) == 0 {
				body = fmt.Sprintf("augment /t:c/t:ch/t:x/t:x/t:%s { leaf deep%s { type string; } }", pick("extra", "from"+names[k-1], "cont"+names[k-1]), n)
			}
			if r.Intn(3) == 0 {
				body += fmt.Sprintf(" augment /t:c/t:ch/t:x/t:x { container cont%s { } }", n)
			}
			fs = append(fs, file{n + ".yang", fmt.Sprintf("module %s { namespace \"urn:%s\"; prefix %s; import t { prefix t; } %s }", n, n, n, body)})
		}
	case 16: // one identity defined by two or three loaded revisions of a module and derived from an identity of another module: entries of one list that differ in nothing but the revision (nothing else is wrong with the set, so that the trees are compared)
		fs = append(fs, file{"idb.yang", "module idb { namespace \"urn:idb\"; prefix idb; identity base; identity mid { base base; } leaf r { type identityref { base base; } } leaf rm { type identityref { base mid; } } }"})
		for k, d := range []string{"2019-01-01", "2020-01-01", "2021-01-01"}[:2+r.Intn(2)] {
			fs = append(fs, file{fmt.Sprintf("two%d.yang", k), fmt.Sprintf("module two { namespace \"urn:two\"; prefix two; import idb { prefix b; } revision %s; identity foo { base b:%s; } identity bar { base foo; } container t { leaf l%d { type string; } } }", d, pick("base", "mid"), k)})
		}
		fs = append(fs, file{"user.yang", "module user { namespace \"urn:user\"; prefix user; import two { prefix t; " + pick("", "revision-date 2019-01-01;") + " } import idb { prefix b; } identity mine { base t:foo; } leaf u { type identityref { base b:base; } } }"})
	case 15: // two submodules of one module that define an identity (and a typedef, a grouping) of one name; or two revisions of a submodule of which the module includes one, by date or not
		if r.Intn(2) == 0 {
			fs = append(fs, file{"sm.yang", "module sm { namespace \"urn:sm\"; prefix sm; include sa; include sb; identity derived { base kind; } leaf ref { type identityref { base kind; } } }"})
			fs = append(fs, file{"sa.yang", "submodule sa { belongs-to sm { prefix sm; } identity kind; identity froma { base kind; } }"})
			fs = append(fs, file{"sb.yang", "submodule sb { belongs-to sm { prefix sm; } identity kind; identity fromb { base kind; } }"})
		} else {
			fs = append(fs, file{"sm.yang", "module sm { namespace \"urn:sm\"; prefix sm; include s" + pick(";", " { revision-date 2019-01-01; }", " { revision-date 2020-01-01; }") + " include other; identity derived { base kind; } leaf ref { type identityref { base kind; } } leaf t { type st; } }"})
			fs = append(fs, file{"s@2019-01-01.yang", "submodule s { belongs-to sm { prefix sm; } revision 2019-01-01; identity kind; typedef st { type string; units old; } identity only2019 { base kind; } }"})
			fs = append(fs, file{"s@2020-01-01.yang", "submodule s { belongs-to sm { prefix sm; } revision 2020-01-01; identity kind; typedef st { type int8; units new; } identity only2020 { base kind; } }"})
			fs = append(fs, file{"other.yang", "submodule other { belongs-to sm { prefix sm; } leaf viaother { type st; } identity viaother { base kind; } }"})
		}
	case 14: // a text given without a source name (positions read "line N:C"), with faults on lines of one, two and three digits
		var b strings.Builder
		b.WriteString("module nameless {\n  namespace \"urn:nameless\";\n  prefix nl;\n")
		line := 4
		for q := 0; q < 5+r.Intn(6); q++ {
			for skip := []int{0, 1, 5, 9, 40, 95}[r.Intn(6)]; skip > 0; skip-- {
				b.WriteString("\n")
				line++
			}
			fmt.Fprintf(&b, "  leaf l%d { type %s %s }\n", q, pick("string;", "nosuch"+fmt.Sprint(q)+";", "uint8 { range \"300..400\"; }"), pick("", "config maybe;", "mandatory perhaps;"))
			line++
		}
		b.WriteString("}\n")
		fs = append(fs, file{"", b.String()})
	case 13: // two or three modules that claim one namespace (the instantiating module of their nodes cannot be told, and the error that says so must say the same every time), next to a module in two revisions (one module, one namespace)
		for _, n := range []string{"nsa", "nsb", "nsc"}[:2+r.Intn(2)] {
			fs = append(fs, file{n + ".yang", fmt.Sprintf("module %s { namespace \"urn:shared\"; prefix %s; %s container c%s { leaf l { type string; } } }", n, n, pick("", "revision 2020-01-01;"), n)})
		}
		// (both revisions derive an identity of one name from an identity of another module:
		// two entries of one list that differ in nothing but the revision)
		fs = append(fs, file{"idb.yang", "module idb { namespace \"urn:idb\"; prefix idb; identity base; leaf r { type identityref { base base; } } }"})
		fs = append(fs, file{"two1.yang", "module two { namespace \"urn:two\"; prefix two; import idb { prefix b; } revision 2019-01-01; identity foo { base b:base; } identity bar { base foo; } container t { leaf old { type string; } } }"})
		fs = append(fs, file{"two2.yang", "module two { namespace \"urn:two\"; prefix two; import idb { prefix b; } revision 2020-01-01; identity foo { base b:base; } identity bar { base foo; } container t { leaf new { type string; } } }"})
		fs = append(fs, file{"user.yang", "module user { namespace \"urn:user\"; prefix user; import nsa { prefix a; } import two { prefix t; " + pick("", "revision-date 2019-01-01;") + " } augment /a:cnsa { leaf fromuser { type string; } } augment /t:t { leaf fromuser { type string; } } }"})
	case 12: // rings of typedefs of length 2-4 that run through union members, plain chains, or both; in one module or across modules
		n := 2 + r.Intn(3)
		across := r.Intn(2) == 0
		var mods [2]strings.Builder
		mods[0].WriteString("module ra { namespace \"urn:ra\"; prefix ra; import rb { prefix rb; }\n")
		mods[1].WriteString("module rb { namespace \"urn:rb\"; prefix rb; import ra { prefix ra; }\n")
		home := func(k int) int {
			if across {
				return k % 2
			}
			return 0
		}
		ref := func(from, to int) string {
			if home(from) == home(to) {
				return fmt.Sprintf("T%d", to)
			}
			return fmt.Sprintf("%s:T%d", []string{"ra", "rb"}[home(to)], to)
		}
		for k := 0; k < n; k++ {
			next := ref(k, (k+1)%n)
			body := ""
			switch r.Intn(3) {
			case 0:
				body = "type " + next + ";"
			case 1:
				body = "type union { type " + next + "; type string; }"
			default:
				body = "type union { type int8; type union { type " + next + "; } }"
			}
			fmt.Fprintf(&mods[home(k)], "  typedef T%d { %s }\n  leaf l%d { type T%d; }\n", k, body, k, k)
		}
		// an innocent typedef and user, and one that hangs off the ring
		fmt.Fprintf(&mods[0], "  typedef ok { type int8; }\n  leaf fine { type ok; }\n  typedef hanger { type union { type T0; type boolean; } }\n  leaf h { type hanger; }\n")
		mods[0].WriteString("}\n")
		mods[1].WriteString("}\n")
		fs = append(fs, file{"ra.yang", mods[0].String()}, file{"rb.yang", mods[1].String()})
	case 11: // rings of groupings of length 2-4, in one module, across two modules, or through a submodule
		n := 2 + r.Intn(3)
		layout := r.Intn(3)
		var mods [2]strings.Builder
		sub := ""
		if layout == 2 {
			sub = "include rs; "
		}
		mods[0].WriteString("module ga { namespace \"urn:ga\"; prefix ga; import gb { prefix gb; } " + sub + "\n")
		mods[1].WriteString("module gb { namespace \"urn:gb\"; prefix gb; import ga { prefix ga; }\n")
		var subText strings.Builder
		subText.WriteString("submodule rs { belongs-to ga { prefix ga; }\n")
		home := func(k int) int {
			switch layout {
			case 1:
				return k % 2
			case 2:
				if k%2 == 1 {
					return 2
				}
			}
			return 0
		}
		dst := func(k int) *strings.Builder {
			if home(k) == 2 {
				return &subText
			}
			return &mods[home(k)]
		}
		ref := func(from, to int) string {
			hf, ht := home(from), home(to)
			if hf == ht || (hf != 1 && ht != 1) {
				return fmt.Sprintf("g%d", to)
			}
			return fmt.Sprintf("%s:g%d", []string{"ga", "gb", "ga"}[ht], to)
		}
		for k := 0; k < n; k++ {
			fmt.Fprintf(dst(k), "  grouping g%d { leaf m%d { type string; } %s }\n  container c%d { uses g%d; }\n", k, k, pick("uses "+ref(k, (k+1)%n)+";", "container in { uses "+ref(k, (k+1)%n)+"; }"), k, k)
		}
		mods[0].WriteString("  grouping fine { leaf f { type string; } }\n  container cf { uses fine; }\n}\n")
		mods[1].WriteString("}\n")
		subText.WriteString("}\n")
		fs = append(fs, file{"ga.yang", mods[0].String()}, file{"gb.yang", mods[1].String()})
		if layout == 2 {
			fs = append(fs, file{"rs.yang", subText.String()})
		}
	case 10: // statements kept in Entry.Extra (if-feature) on grouping members, on the uses and inside augments, from several modules
		fs = append(fs, file{"g.yang", "module g { namespace \"urn:g\"; prefix g; feature ipv4; feature ipv6; grouping addr { leaf address { if-feature ipv4; " + pick("", "if-feature ipv6;") + " type string; } container opts { if-feature ipv6; leaf o { type string; } } leaf plain { type string; } } }"})
		for _, n := range []string{"east", "west", "north"}[:2+r.Intn(2)] {
			fs = append(fs, file{n + ".yang", fmt.Sprintf("module %s { namespace \"urn:%s\"; prefix %s; import g { prefix b; } feature %s; container %s { uses b:addr { if-feature %s; %s } } augment /%s:%s { if-feature %s; leaf extra { if-feature b:ipv4; type string; } } }", n, n, n, n, n, n, pick("", "if-feature b:ipv6;", "when \"x\";"), n, n, n)})
		}
	case 9: // several multi-line errors that share their position and first line and differ only in the continuation lines
		rev := pick("", "revision 2020-01-01;")
		fs = append(fs, file{"m.yang", "module m { namespace \"urn:m\"; prefix m; " + rev + "\n  grouping g { leaf a { type string; } leaf b { type string; } }\n  grouping h1 { leaf a { type int8; } }\n  grouping h2 { leaf a { type boolean; } leaf b { type boolean; } }\n  grouping h3 { leaf b { type uint8; } }\n  container x { container c { uses " + pick("h1", "h2") + "; uses g; } }\n  container y { container c { uses " + pick("h2", "h3") + "; uses g; } }\n  container z { container c { uses " + pick("h1", "h3") + "; uses g; } }\n}\n"})
		if r.Intn(2) == 0 {
			fs = append(fs, file{"n.yang", "module n { namespace \"urn:n\"; prefix n; import m { prefix m; } container k { container c { leaf a { type string; } uses m:g; } } container l { container c { leaf b { type string; } uses m:g; } } }"})
		}
	case 6: // two revisions of a module that both include one submodule (nested include in half of the cases)
		nested := pick("", "include t;")
		top := ""
		if nested != "" {
			top = "include t;"
		}
		fs = append(fs, file{"m1.yang", "module m { namespace \"urn:m\"; prefix m; include s; " + top + " revision 2019-01-01; leaf a { type string; } }"})
		fs = append(fs, file{"m2.yang", "module m { namespace \"urn:m\"; prefix m; include s; " + top + " revision 2020-01-01; leaf a { type string; } leaf b { type st; } }"})
		fs = append(fs, file{"s.yang", "submodule s { belongs-to m { prefix m; } " + nested + " typedef st { type int8; } leaf fromsub { type st; } }"})
		if nested != "" {
			fs = append(fs, file{"t.yang", "submodule t { belongs-to m { prefix m; } leaf fromnested { type string; } }"})
		}
	case 7: // two revisions of a module, each with its own typedefs, groupings, augments and deviations; importers with and without revision-date
		fs = append(fs, file{"x.yang", "module x { namespace \"urn:x\"; prefix x; container c { leaf d { type string; default q; } } }"})
		fs = append(fs, file{"m1.yang", "module m { namespace \"urn:m\"; prefix m; import x { prefix x; } revision 2019-01-01; typedef t { type int8; } grouping g { leaf old { type t; } } augment /x:c { leaf " + pick("fromm", "from1") + " { type t; } } }"})
		fs = append(fs, file{"m2.yang", "module m { namespace \"urn:m\"; prefix m; import x { prefix x; } revision 2020-01-01; typedef t { type string; } grouping g { leaf new { type t; } } augment /x:c { leaf " + pick("fromm", "from2") + " { type t; } } " + pick("", "deviation /x:c/x:d { deviate replace { default r; } }") + " }"})
		fs = append(fs, file{"u.yang", "module u { namespace \"urn:u\"; prefix u; import m { prefix m; " + pick("", "revision-date 2019-01-01;", "revision-date 2020-01-01;") + " } container k { uses m:g; } leaf l { type m:t; } }"})
	case 8: // deviations of one node from two modules (commuting and conflicting), and of a node that comes from a grouping used twice
		fs = append(fs, file{"m.yang", "module m { namespace \"urn:m\"; prefix m; grouping g { leaf-list ll { type string; max-elements 9; } leaf gl { type string; } } container u1 { uses g; } container u2 { uses g; } leaf l { type string; } }"})
		fs = append(fs, file{"d1.yang", "module d1 { namespace \"urn:d1\"; prefix d1; import m { prefix m; } deviation /m:l { deviate add { " + pick("default a;", "units u1;", "config false;") + " } } deviation /m:u1/m:ll { deviate replace { max-elements 3; } } }"})
		fs = append(fs, file{"d2.yang", "module d2 { namespace \"urn:d2\"; prefix d2; import m { prefix m; } deviation /m:l { deviate add { " + pick("default b;", "mandatory true;", "config true;") + " } } deviation /m:u2/m:gl { deviate " + pick("not-supported;", "add { default z; }") + " } }"})
	case 0: // equal identity names in several modules
		fs = append(fs, file{"a.yang", "module a { namespace \"urn:a\"; prefix a; identity base; identity x { base base; } identity y { base x; } }"})
		for k, n := range []string{"b", "c", "d"}[:1+r.Intn(3)] {
			fs = append(fs, file{n + ".yang", fmt.Sprintf("module %s { namespace \"urn:%s\"; prefix %s; import a { prefix a; } identity %s { base a:base; } identity y { base a:%s; } leaf r%d { type identityref { base a:base; } } }", n, n, pick(n, "same", "same"), pick("x", "y", "z"), pick("x", "base"), k)})
		}
	case 1: // several deviate kinds in one deviation
		fs = append(fs, file{"m.yang", "module m { namespace \"urn:m\"; prefix m; leaf l { type string; default x; } leaf-list ll { type string; max-elements 4; } }"})
		fs = append(fs, file{"d.yang", fmt.Sprintf("module d { namespace \"urn:d\"; prefix d; import m { prefix m; } deviation /m:l { deviate %s { default x; } deviate %s { default y; } } deviation /m:ll { deviate replace { max-elements 2; } deviate delete { max-elements 2; } } }", pick("delete", "replace"), pick("add", "replace"))})
	case 2: // conflicting and commuting augments from several modules
		fs = append(fs, file{"m.yang", "module m { namespace \"urn:m\"; prefix m; container c { } rpc r; }"})
		for _, n := range []string{"a", "b", "c"}[:2+r.Intn(2)] {
			fs = append(fs, file{n + ".yang", fmt.Sprintf("module %s { namespace \"urn:%s\"; prefix %s; import m { prefix m; } augment /m:c { leaf %s { type %s; } } augment /m:r/m:input { leaf %s { type string; } } }", n, n, n, pick("x", "y", n), pick("string", "int8"), pick("q", n))})
		}
	case 3: // several revisions of one module
		fs = append(fs, file{"a1.yang", "module a { namespace \"urn:a\"; prefix a; revision 2020-01-01; identity i; identity j { base i; } leaf v1 { type string; } }"})
		fs = append(fs, file{"a2.yang", "module a { namespace \"urn:a\"; prefix a; revision 2021-01-01; identity i; identity k { base i; } leaf v2 { type string; } }"})
		fs = append(fs, file{"u.yang", fmt.Sprintf("module u { namespace \"urn:u\"; prefix u; import a { prefix a; %s } leaf r { type identityref { base a:i; } } identity mine { base a:i; } deviation /a:%s { deviate not-supported; } }", pick("", "revision-date 2020-01-01;", "revision-date 2021-01-01;"), pick("v1", "v2"))})
	case 4: // several independent errors, missing dependencies
		fs = append(fs, file{"m.yang", "module m { namespace \"urn:m\"; prefix m; import zz { prefix z; } include nosub; leaf a { type nope1; } leaf b { type nope2; } container c { leaf d { type uint8 { range 300; } } uses nog; } }"})
		fs = append(fs, file{"n.yang", "module n { namespace \"urn:n\"; prefix n; import m { prefix m; } import yy { prefix y; } leaf a { type m:nope3; } leaf b { type y:t; } augment /m:nothere { leaf q { type string; } } }"})
		fs = append(fs, file{"o.yang", "module o { namespace \"urn:o\"; prefix o; import n { prefix n; } leaf a { type string { length \"5..2\"; } } leaf b { type string { length \"5..2\"; } } }"})
	default: // augment chain against load order
		fs = append(fs, file{"d.yang", "module d { namespace \"urn:d\"; prefix d; import m { prefix m; } augment /m:c/m:a1/m:b1/m:c1 { leaf d1 { type string; } } }"})
		fs = append(fs, file{"c.yang", "module c { namespace \"urn:c\"; prefix c; import m { prefix m; } augment /m:c/m:a1/m:b1 { container c1 { } } }"})
		fs = append(fs, file{"b.yang", "module b { namespace \"urn:b\"; prefix b; import m { prefix m; } augment /m:c/m:a1 { container b1 { } } }"})
		fs = append(fs, file{"m.yang", "module m { namespace \"urn:m\"; prefix m; container c { } augment /m:c { container a1 { } } }"})
	}
	return fs
}

var modHead = regexp.MustCompile(`^\s*module (\S+) \{`)

// twoRevisionsShareSubmodule reports whether the set holds two texts of one module name
// that both have an include statement (the shape of a recorded finding).
func twoRevisionsShareSubmodule(fs []file) bool {
	n := map[string]int{}
	for _, f := range fs {
		if m := modHead.FindStringSubmatch(f.Text); m != nil && strings.Contains(f.Text, " include ") {
			n[m[1]]++
		}
	}
	for _, c := range n {
		if c >= 2 {
			return true
		}
	}
	return false
}

func perms(n int, max int, r interface{ Perm(int) []int }) [][]int {
	if n <= 4 {
		var out [][]int
		var rec func(cur []int, used []bool)
		rec = func(cur []int, used []bool) {
			if len(cur) == n {
				out = append(out, append([]int{}, cur...))
				return
			}
			for i := 0; i < n; i++ {
				if !used[i] {
					used[i] = true
					rec(append(cur, i), used)
					used[i] = false
				}
			}
		}
		rec(nil, make([]bool, n))
		if len(out) > max {
			out = out[:max]
		}
		return out
	}
	var out [][]int
	for i := 0; i < max; i++ {
		out = append(out, r.Perm(n))
	}
	return out
}

// Run: families "conflict" (hand-shaped tie/conflict sets) and "generated" (schema generator,
// half of them with injected faults so that error lists are exercised).
func Run(j *job.Job, s *job.Sink) {
	reps := 48
	maxPerms := 6
	if j.Tier == "thorough" {
		reps, maxPerms = 128, 24
	}
	for c := j.Start; c < j.Start+j.Count; c++ {
		r := prng.For(j.Seed, "C05", j.Family, c)
		var fs []file
		if j.Family == "conflict" {
			fs = conflictSet(c, j.Seed)
		} else {
			// the generated family also gets cyclic and unknown type references (rings of one
			// to three typedefs: what is reported for a ring must not depend on where the
			// walk over the typedef dictionary happens to enter it)
			g := &schema.Gen{R: r, Typedefs: true, TypeErrors: c%4 == 3}
			g.Build()
			for _, m := range g.Mods {
				t := schema.Print(m)
				if c%2 == 1 && r.Intn(2) == 0 {
					t = strings.Replace(t, "type string;", "type nosuch;", 1+r.Intn(2))
					t = strings.Replace(t, "uses ", "uses missing; uses ", 1)
					for q := r.Intn(3); q > 0; q-- { // up to two more faults of other kinds
						t, _ = faults.Inject(r, t)
					}
				}
				fs = append(fs, file{m.Name + ".yang", t})
			}
			if c%2 == 1 && len(fs) > 1 && r.Intn(3) == 0 {
				fs = fs[1:]
			}
		}
		s.Current(c, fs)
		s.Count("sets", 1)
		if len(fs) >= 2 {
			s.Count("nontrivial", 1)
		}
		seen := map[string]int{}
		var first string
		reported := map[string]bool{}
		bad := func(class, detail string) {
			if reported[class] {
				return
			}
			reported[class] = true
			s.Violation(c, j.CaseID(c), "C05.repeat", class, detail, fs, map[string]any{"family": j.Family, "two_revisions_include_same_submodule": twoRevisionsShareSubmodule(fs)})
		}
		for _, p := range perms(len(fs), maxPerms, r) {
			for k := 0; k < reps; k++ {
				var d string
				func() {
					defer func() {
						if rec := recover(); rec != nil {
							d = fmt.Sprint("PANIC ", rec)
						}
					}()
					ms := yang.NewModules()
					var perr []string
					for n, i := range p {
						if err := ms.Parse(fs[i].Text, fs[i].Name); err != nil {
							perr = append(perr, "LOAD "+err.Error())
						}
						// one repetition in eight has a processing run after every load (what
						// a run makes of a half-loaded set must not show in the last one), and
						// one in eight is processed twice
						if k%8 == 7 && n < len(p)-1 {
							ms.Process()
						}
					}
					if k%8 == 6 {
						ms.Process()
					}
					errs := ms.Process()
					if msg := sortedAndUnique(errs); msg != "" {
						bad("error-list-order", msg)
					}
					d = strings.Join(perr, "\n") + "\n" + dump.Set(ms, errs, true)
				}()
				s.Count("executions", 1)
				if first == "" {
					first = d
				}
				seen[d]++
			}
		}
		if len(seen) > 1 {
			var other string
			for d := range seen {
				if d != first {
					other = d
					break
				}
			}
			la, lb := "", ""
			a, b := strings.Split(first, "\n"), strings.Split(other, "\n")
			for i := 0; i < len(a) && i < len(b); i++ {
				if a[i] != b[i] {
					la, lb = a[i], b[i]
					break
				}
			}
			if len(la) > 200 {
				la = la[:200]
			}
			if len(lb) > 200 {
				lb = lb[:200]
			}
			bad("outcome-varies", fmt.Sprintf("%d distinct outcomes over repetitions and load orders; e.g. %q vs %q", len(seen), la, lb))
		} else {
			s.Count("stable_sets", 1)
		}
		if strings.Contains(first, "ERROR") {
			s.Count("error_outcomes", 1)
		}
		if c%500 == 0 {
			s.Sample(1, fs)
		}
	}
}

// CLI runs the goyang command (built by the driver into params[goyang]) repeatedly with
// shuffled argument order and compares its output bytes.
func CLI(j *job.Job, s *job.Sink) {
	s.IdleExempt = true // this worker waits for child processes; they have a CPU limit of their own
	bin := j.Params["goyang"]
	for c := j.Start; c < j.Start+j.Count; c++ {
		r := prng.For(j.Seed, "C05", "cli", c)
		g := &schema.Gen{R: r, Typedefs: true}
		g.Build()
		dir, _ := os.MkdirTemp(".", "cli")
		var names []string
		var fs []file
		for _, m := range g.Mods {
			n := m.Name + ".yang"
			t := schema.Print(m)
			os.WriteFile(filepath.Join(dir, n), []byte(t), 0o644)
			names = append(names, n)
			fs = append(fs, file{n, t})
		}
		// Every other set also has a module with types that are equal in everything but their
		// names (and, written in place, in nothing but their position): a formatter that
		// lists "each type once" must still list the same ones every time. And siblings whose
		// names differ in the case of letters only (YANG names are case-sensitive) have one order.
		if c%2 == 0 {
			n := "zzmeter.yang"
			t := "module zzmeter {\n  namespace \"urn:zzmeter\";\n  prefix zm;\n  typedef cpu-load { type uint8 { range \"0..100\"; } units percent; }\n  typedef disk-fill { type uint8 { range \"0..100\"; } units percent; }\n  typedef label { type string { length \"1..32\"; } }\n  typedef tag { type string { length \"1..32\"; } }\n  container meter {\n    leaf cpu { type cpu-load; }\n    leaf disk { type disk-fill; }\n    leaf name { type label; }\n    leaf kind { type tag; }\n    leaf a { type int16 { range \"1..9\"; } }\n    leaf b { type int16 { range \"1..9\"; } }\n  }\n  container cases {\n    leaf ifIndex { type int32; }\n    leaf ifindex { type int32; }\n    leaf IfIndex { type string; }\n    leaf IFINDEX { type string; }\n    leaf ifINDEX { type boolean; }\n    leaf Ifindex { type boolean; }\n    leaf ifindeX { type int8; }\n    leaf iFindex { type int8; }\n    container Sub { leaf x { type string; } }\n    container sub { leaf x { type string; } }\n  }\n}\n"
			os.WriteFile(filepath.Join(dir, n), []byte(t), 0o644)
			names = append(names, n)
			fs = append(fs, file{n, t})
		}
		// One set in three has a module in two revisions, both named on the command line
		// (only a module that includes nothing, see the recorded finding
		// c05-two-revisions-share-a-submodule): the tool prints one tree per module name,
		// and which revision that is must not vary.
		if c%3 == 1 {
			for _, m := range g.Mods {
				if m.Sub || len(m.Includes) > 0 {
					continue
				}
				os.Remove(filepath.Join(dir, m.Name+".yang"))
				for k := range names {
					if names[k] == m.Name+".yang" {
						names = append(names[:k], names[k+1:]...)
						fs = append(fs[:k], fs[k+1:]...)
						break
					}
				}
				m.Revs = []string{"2019-01-01"}
				t1 := schema.Print(m)
				m.Revs = []string{"2020-02-02"}
				m.Body.Items = append(m.Body.Items, &schema.Item{Node: &schema.Node{Kind: "leaf", Name: "zzrev2", Type: &schema.TypeRef{Name: "int16", Scope: m.Body}}})
				t2 := schema.Print(m)
				for _, f := range []file{{m.Name + "@2019-01-01.yang", t1}, {m.Name + "@2020-02-02.yang", t2}} {
					os.WriteFile(filepath.Join(dir, f.Name), []byte(f.Text), 0o644)
					names = append(names, f.Name)
					fs = append(fs, f)
				}
				s.Count("cli_sets_with_two_revisions", 1)
				break
			}
		}
		s.Current(c, fs)
		s.Count("cli_sets", 1)
		for _, format := range []string{"tree", "types", "types --types_verbose", "types --types_debug"} {
			outs := map[string]int{}
			for k := 0; k < 10; k++ {
				// (format options are only known to the tool when the format is given in
				// its long spelling)
				fa := strings.Fields("--format=" + format)
				args := append(fa, names...)
				r.Shuffle(len(names), func(a, b int) { args[len(fa)+a], args[len(fa)+b] = args[len(fa)+b], args[len(fa)+a] })
				out, over := runBounded(dir, bin, args)
				if over != "" {
					s.Violation(c, j.CaseID(c), "C05.cli", "cli-"+over, fmt.Sprintf("`goyang %s` %s", strings.Join(args, " "), over), fs, map[string]any{"format": format})
					break
				}
				outs[string(out)]++
				s.Count("executions", 1)
			}
			if len(outs) > 1 {
				s.Violation(c, j.CaseID(c), "C05.cli", "output-varies:"+format, fmt.Sprintf("%d different outputs of `goyang -f %s` over 10 runs", len(outs), format), fs, map[string]any{"format": format})
			}
		}
		// the library's own convenience entry point for "parse these files": which trees it
		// returns, under which names, must not vary either
		if c%3 == 1 {
			var paths []string
			for _, n := range names {
				paths = append(paths, filepath.Join(dir, n))
			}
			outs := map[string]int{}
			for k := 0; k < 12; k++ {
				r.Shuffle(len(paths), func(a, b int) { paths[a], paths[b] = paths[b], paths[a] })
				entries, errs := yangentry.Parse(paths, nil)
				var ks []string
				for n, e := range entries {
					var cs []string
					for cn := range e.Dir {
						cs = append(cs, cn)
					}
					sort.Strings(cs)
					full := ""
					if m, ok := e.Node.(*yang.Module); ok {
						full = m.FullName()
					}
					ks = append(ks, fmt.Sprintf("%s=%s%v", n, full, cs))
				}
				sort.Strings(ks)
				outs[fmt.Sprintf("%v errors=%d", ks, len(errs))]++
				s.Count("executions", 1)
			}
			s.Count("yangentry_sets", 1)
			if len(outs) > 1 {
				var first []string
				for o := range outs {
					if len(o) > 200 {
						o = o[:200]
					}
					first = append(first, o)
				}
				sort.Strings(first)
				s.Violation(c, j.CaseID(c), "C05.cli", "output-varies:yangentry", fmt.Sprintf("%d different results of yangentry.Parse over 12 calls, e.g. %q and %q", len(outs), first[0], first[1]), fs, map[string]any{"format": "yangentry"})
			}
		}
		// One set in three is read file by file from a directory in which one file is
		// rejected and another one imports a module that only the search path supplies: in
		// which order the caller offers the files must not decide whether the import resolves.
		if c%3 == 2 {
			sub := filepath.Join(dir, "zzsub")
			os.MkdirAll(sub, 0o755)
			broken := []string{"module zzbroken {\n  namespace \"urn:zzbroken\";\n  prefix zb;\n  leaf x { type string; }\n", "module zzbroken {\n  namespace \"urn:zzbroken\";\n  prefix zb;\n  frobnicate y;\n}\n", "module zzmain2 {\n  namespace \"urn:zzbroken\";\n  prefix zb;\n  leaf-list { }\n}\n"}[r.Intn(3)]
			disk := []file{{"zzbroken.yang", broken},
				{"zzmain.yang", "module zzmain {\n  namespace \"urn:zzmain\";\n  prefix zm;\n  import zzdep { prefix zd; }\n  leaf l { type zd:t; }\n}\n"},
				{"zzmain2.yang", "module zzmain2 {\n  namespace \"urn:zzmain2\";\n  prefix zm2;\n  include zzsubm;\n  leaf l2 { type st; }\n}\n"}}
			for _, f := range append(disk, file{"zzdep.yang", "module zzdep {\n  namespace \"urn:zzdep\";\n  prefix zd;\n  typedef t { type int8; }\n}\nsubmodule zzorph {\n  belongs-to zznone { prefix zn; }\n  import zzq { prefix q; }\n  container oc { uses q:g; }\n}\n"}, file{"zzq.yang", "module zzq {\n  namespace \"urn:zzq\";\n  prefix zq;\n  grouping g { leaf gl { type int8; } }\n}\n"}, file{"zzsubm.yang", "submodule zzsubm {\n  belongs-to zzmain2 { prefix zm2; }\n  typedef st { type uint8; }\n}\n"}) {
				os.WriteFile(filepath.Join(sub, f.Name), []byte(f.Text), 0o644)
			}
			outs := map[string]int{}
			idx := []int{0, 1, 2}
			for k := 0; k < 12; k++ {
				r.Shuffle(len(idx), func(a, b int) { idx[a], idx[b] = idx[b], idx[a] })
				ms := yang.NewModules()
				var rerr []string
				for _, i := range idx {
					if err := ms.Read(filepath.Join(sub, disk[i].Name)); err != nil {
						rerr = append(rerr, "LOAD "+err.Error())
					}
				}
				sort.Strings(rerr)
				errs := ms.Process()
				if k%2 == 1 {
					// (every other time the set is processed twice: what the run fetches - the
					// file of zzdep also holds a submodule that nothing includes, with an import
					// of its own - is linked by that run, so the second one changes nothing)
					errs = ms.Process()
				}
				outs[strings.Join(rerr, "\n")+"\n"+dump.Set(ms, errs, true)]++
				s.Count("executions", 1)
			}
			s.Count("sets_read_from_a_directory_with_a_rejected_file", 1)
			if len(outs) > 1 {
				var first []string
				for o := range outs {
					if i := strings.Index(o, "ERROR"); i >= 0 && len(o) > i+200 {
						o = o[i : i+200]
					} else if len(o) > 200 {
						o = o[:200]
					}
					first = append(first, o)
				}
				sort.Strings(first)
				s.Violation(c, j.CaseID(c), "C05.cli", "outcome-varies:rejected-read", fmt.Sprintf("%d different outcomes over 12 orders of reading the files of one directory, e.g. %q and %q", len(outs), first[0], first[1]), append(fs, disk...), map[string]any{"format": "reads"})
			}
		}
		os.RemoveAll(dir)
	}
}

// runBounded runs the command with 20 CPU seconds and at most 16 MiB of output.
func runBounded(dir, bin string, args []string) ([]byte, string) {
	quoted := []string{"ulimit -t 20; exec \"$0\" \"$@\""}
	cmd := exec.Command("sh", append([]string{"-c", quoted[0], bin}, args...)...)
	cmd.Dir = dir
	pr, pw, err := os.Pipe()
	if err != nil {
		return nil, "pipe: " + err.Error()
	}
	cmd.Stdout, cmd.Stderr = pw, pw
	if err := cmd.Start(); err != nil {
		pw.Close()
		pr.Close()
		return nil, "start: " + err.Error()
	}
	pw.Close()
	const max = 16 << 20
	var out []byte
	buf := make([]byte, 64<<10)
	over := ""
	for {
		n, err := pr.Read(buf)
		out = append(out, buf[:n]...)
		if len(out) > max {
			over = "output-exceeds-16MiB"
			cmd.Process.Kill()
			break
		}
		if err != nil {
			break
		}
	}
	pr.Close()
	err = cmd.Wait()
	if over == "" && err != nil && strings.Contains(err.Error(), "killed") {
		over = "cpu-budget-exceeded"
	}
	return out, over
}
