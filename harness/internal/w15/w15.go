// Package w15 is the workload and monitor of C15 (numbers).
package w15

import (
	"fmt"
	"math/big"
	"strings"

	"github.com/openconfig/goyang/pkg/yang"
	"verif/internal/exact"
	"verif/internal/job"
	"verif/internal/prng"
)

func y(n exact.Num) yang.Number {
	return yang.Number{Value: n.Mag, Negative: n.Neg, FractionDigits: n.FD}
}

func numbers(dense bool) []exact.Num {
	var nums []exact.Num
	for _, m := range exact.Grid(dense) {
		for _, neg := range []bool{false, true} {
			for fd := uint8(0); fd <= 18; fd++ {
				n := exact.Num{Mag: m, Neg: neg, FD: fd}
				if exact.InDomain(n) {
					nums = append(nums, n)
				}
			}
		}
	}
	return nums
}

// single checks printing, round trip and Int of one number.
func single(n exact.Num) (class, detail string, facts map[string]any) {
	yn := y(n)
	facts = map[string]any{"zero": n.Mag == 0, "negative": n.Neg}
	if yn.String() != n.String() {
		return "string", fmt.Sprintf("String() = %s, exact %s", yn.String(), n.String()), facts
	}
	var back yang.Number
	var err error
	if n.FD == 0 {
		back, err = yang.ParseInt(yn.String())
	} else {
		back, err = yang.ParseDecimal(yn.String(), n.FD)
	}
	if err != nil {
		return "roundtrip-error", fmt.Sprintf("parse(%s): %v", yn.String(), err), facts
	}
	if !back.Equal(yn) {
		return "roundtrip-unequal", fmt.Sprintf("%s parses back as %v, not Equal", yn.String(), back), facts
	}
	if n.FD == 0 {
		// constructors: the same value built from a Go integer
		if !n.Neg {
			if u := yang.FromUint(n.Mag); !u.Equal(yn) || u.String() != n.String() || yn.Less(u) || u.Less(yn) {
				return "from-uint", fmt.Sprintf("FromUint(%d) = %s, exact %s", n.Mag, u.String(), n.String()), facts
			}
		}
		if v := n.Scaled(); true {
			v.Div(v, exact.Pow10(18))
			if v.IsInt64() {
				want := n.String()
				if n.Mag == 0 {
					want = "0"
				}
				if f := yang.FromInt(v.Int64()); !f.Equal(yn) || f.String() != want {
					return "from-int", fmt.Sprintf("FromInt(%d) = %s, exact %s", v.Int64(), f.String(), want), facts
				}
			}
		}
		i, err := yn.Int()
		v := n.Scaled()
		v.Div(v, exact.Pow10(18))
		if v.IsInt64() {
			if err != nil || i != v.Int64() {
				return "int", fmt.Sprintf("%s.Int() = %d, %v", n.String(), i, err), facts
			}
		} else if err == nil {
			return "int-wrap", fmt.Sprintf("%s.Int() = %d, want an error", n.String(), i), facts
		}
	}
	return "", "", nil
}

func pair(a, b exact.Num) (class, detail string, facts map[string]any) {
	c := a.Scaled().Cmp(b.Scaled())
	ya, yb := y(a), y(b)
	facts = map[string]any{"negative_zero": (a.Mag == 0 && a.Neg) || (b.Mag == 0 && b.Neg)}
	if ya.Less(yb) != (c < 0) {
		return "less", fmt.Sprintf("%s(fd%d) < %s(fd%d) = %v", a.String(), a.FD, b.String(), b.FD, ya.Less(yb)), facts
	}
	if ya.Equal(yb) != (c == 0) {
		return "equal", fmt.Sprintf("%s(fd%d) == %s(fd%d) = %v", a.String(), a.FD, b.String(), b.FD, ya.Equal(yb)), facts
	}
	return "", "", nil
}

// Pairs: every pair of grid numbers; the first number selects the shard.
func Pairs(j *job.Job, s *job.Sink) {
	nums := numbers(j.Params["dense"] == "1")
	for i, a := range nums {
		if i%j.Shards != j.Shard {
			continue
		}
		s.Current(int64(i), map[string]any{"a": a.String(), "fd": a.FD})
		s.Count("numbers", 1)
		if c, d, f := single(a); c != "" {
			s.Violation(int64(i), j.CaseID(int64(i)), "C15.single", c, d, map[string]any{"mag": fmt.Sprint(a.Mag), "neg": a.Neg, "fd": a.FD}, f)
		}
		for _, b := range nums {
			s.Count("pairs", 1)
			if a.FD != b.FD || a.Neg != b.Neg {
				s.Count("nontrivial", 1)
			}
			if c, d, f := pair(a, b); c != "" {
				s.Violation(int64(i), j.CaseID(int64(i)), "C15.pair", c, d, map[string]any{"a": a, "b": b}, f)
			}
		}
		if i%500 == 0 {
			s.Sample(2, map[string]any{"number": a.String(), "fd": a.FD, "compared_with": len(nums)})
		}
	}
}

// literal checks ParseDecimal / ParseInt on one literal.
func literal(intPart uint64, sign string, fracLen int, fdigit byte, fd uint8) (class, detail string, facts map[string]any) {
	ip := new(big.Int).SetUint64(intPart).String()
	frac := ""
	if fracLen > 0 {
		frac = "." + strings.Repeat("0", fracLen-1) + string(fdigit)
	}
	lit := sign + ip + frac
	facts = map[string]any{"fraction_digits_in_literal": fracLen, "over_255": fracLen > 255}
	short := lit
	if len(short) > 40 {
		short = short[:30] + fmt.Sprintf("...(%d chars)", len(lit))
	}
	if fd == 0 {
		if fracLen > 0 {
			return "", "", nil
		}
		got, err := yang.ParseInt(lit)
		if err != nil {
			return "int-literal-rejected", fmt.Sprintf("ParseInt(%s): %v", short, err), facts
		}
		if got.Value != intPart || got.FractionDigits != 0 || (got.Negative != (sign == "-") && intPart != 0) {
			return "int-literal-value", fmt.Sprintf("ParseInt(%s) = %v", short, got), facts
		}
		return "", "", nil
	}
	got, err := yang.ParseDecimal(lit, fd)
	// exact value times 10^fd, if it is an integer
	exp := new(big.Int).SetUint64(intPart)
	exp.Mul(exp, exact.Pow10(int(fd)))
	representable := true
	if fracLen > 0 && fdigit != '0' {
		if fracLen > int(fd) {
			representable = false
		} else {
			d := big.NewInt(int64(fdigit - '0'))
			exp.Add(exp, d.Mul(d, exact.Pow10(int(fd)-fracLen)))
		}
	}
	if sign == "-" {
		exp.Neg(exp)
	}
	fits := representable && exp.IsInt64()
	if !fits {
		if err == nil {
			return "decimal-literal-wrong-accept", fmt.Sprintf("ParseDecimal(%s, %d) = %v, the literal does not fit", short, fd, got), facts
		}
		return "", "", nil
	}
	if err != nil {
		// (zeros beyond the precision denote nothing: the number fits, so this is an error
		// like any other; it was tolerated until fix b6ecc53)
		return "decimal-literal-rejected", fmt.Sprintf("ParseDecimal(%s, %d): %v", short, fd, err), facts
	}
	gb := new(big.Int).SetUint64(got.Value)
	if got.Negative {
		gb.Neg(gb)
	}
	if gb.Cmp(exp) != 0 || got.FractionDigits != fd {
		return "decimal-literal-value", fmt.Sprintf("ParseDecimal(%s, %d) = %v", short, fd, got), facts
	}
	return "", "", nil
}

// Literals: grid of integer parts x fraction lengths x signs x every precision.
func Literals(j *job.Job, s *job.Sink) {
	mags := exact.Grid(false)
	for i, m := range mags {
		if i%j.Shards != j.Shard {
			continue
		}
		s.Current(int64(i), map[string]any{"integer_part": fmt.Sprint(m)})
		for _, fl := range []int{0, 1, 2, 17, 18, 19, 20, 254, 255, 256, 257, 300} {
			for _, fdigit := range []byte{'0', '5'} {
				for _, sign := range []string{"", "-", "+"} {
					for fd := uint8(0); fd <= 18; fd++ {
						s.Count("literals", 1)
						if fl > 0 {
							s.Count("nontrivial", 1)
						}
						if c, d, f := literal(m, sign, fl, fdigit, fd); c != "" {
							s.Violation(int64(i), j.CaseID(int64(i)), "C15.literal", c, d, map[string]any{"int": fmt.Sprint(m), "sign": sign, "fraction_len": fl, "digit": string(fdigit), "fd": fd}, f)
						}
					}
				}
			}
		}
	}
}

// Random: random triples and pairs beyond the grid.
func Random(j *job.Job, s *job.Sink) {
	for i := j.Start; i < j.Start+j.Count; i++ {
		r := prng.For(j.Seed, "C15", "random", i)
		mk := func() exact.Num {
			for {
				n := exact.Num{Mag: r.Uint64() >> uint(r.Intn(64)), Neg: r.Intn(2) == 0, FD: uint8(r.Intn(19))}
				if r.Intn(8) == 0 {
					n.Mag = exact.Grid(false)[r.Intn(len(exact.Grid(false)))]
				}
				if exact.InDomain(n) {
					return n
				}
			}
		}
		a, b := mk(), mk()
		if i%4096 == 0 {
			s.Current(i, map[string]any{"a": a, "b": b})
		}
		s.Count("random_pairs", 1)
		s.Count("nontrivial", 1)
		if c, d, f := single(a); c != "" {
			s.Violation(i, j.CaseID(i), "C15.single", c, d, a, f)
		}
		if c, d, f := pair(a, b); c != "" {
			s.Violation(i, j.CaseID(i), "C15.pair", c, d, map[string]any{"a": a, "b": b}, f)
		}
	}
}

// Schema: range-checked integer arguments through modules (fraction-digits, value, position).
func Schema(j *job.Job, s *job.Sink) {
	lits := []string{"0", "1", "18", "19", "-1", "-18446744073709551615", "-18446744073709551598", "18446744073709551617", "4294967297", "-4294967295", "-9223372036854775809", "9223372036854775808", "2147483648", "-2147483649"}
	for i, l := range lits {
		if i%j.Shards != j.Shard {
			continue
		}
		s.Current(int64(i), map[string]any{"literal": l})
		v, _ := new(big.Int).SetString(l, 10)
		for _, kind := range []string{"fraction-digits", "value", "position"} {
			var text string
			var lo, hi int64
			switch kind {
			case "fraction-digits":
				text = fmt.Sprintf("module m { namespace \"urn:m\"; prefix m; leaf l { type decimal64 { fraction-digits %s; } } }", l)
				lo, hi = 1, 18
			case "value":
				text = fmt.Sprintf("module m { namespace \"urn:m\"; prefix m; leaf l { type enumeration { enum a { value %s; } } } }", l)
				lo, hi = -1<<31, 1<<31-1
			default:
				text = fmt.Sprintf("module m { namespace \"urn:m\"; prefix m; leaf l { type bits { bit a { position %s; } } } }", l)
				lo, hi = 0, 1<<32-1
			}
			valid := v.Cmp(big.NewInt(lo)) >= 0 && v.Cmp(big.NewInt(hi)) <= 0
			ms := yang.NewModules()
			s.Count("schema_cases", 1)
			if err := ms.Parse(text, "m.yang"); err != nil {
				s.Violation(int64(i), j.CaseID(int64(i)), "C15.schema", "parse", err.Error(), text, nil)
				continue
			}
			errs := ms.Process()
			if valid && len(errs) > 0 {
				s.Violation(int64(i), j.CaseID(int64(i)), "C15.schema", "rejects-valid", fmt.Sprintf("%s %s: %v", kind, l, errs[0]), text, nil)
			}
			if !valid && len(errs) == 0 {
				s.Violation(int64(i), j.CaseID(int64(i)), "C15.schema", "accepts-out-of-range", fmt.Sprintf("%s %s accepted", kind, l), text, map[string]any{"kind": kind})
			}
		}
	}
}
