// Package exact is the big-integer reference for numbers (C15), intervals (C10)
// and enum/bit assignment (C14).
package exact

import (
	"math/big"
	"sort"
)

var ten = big.NewInt(10)

// Pow10 returns 10^n.
func Pow10(n int) *big.Int { return new(big.Int).Exp(ten, big.NewInt(int64(n)), nil) }

// Num is magnitude, sign and fraction digits, as in yang.Number.
type Num struct {
	Mag uint64
	Neg bool
	FD  uint8
}

// Scaled returns the value times 10^18.
func (n Num) Scaled() *big.Int {
	b := new(big.Int).SetUint64(n.Mag)
	b.Mul(b, Pow10(18-int(n.FD)))
	if n.Neg {
		b.Neg(b)
	}
	return b
}

// String prints the number the way RFC 7950 9.3 writes decimal64 (and integers).
func (n Num) String() string {
	s := new(big.Int).SetUint64(n.Mag).String()
	if n.FD > 0 {
		for len(s) <= int(n.FD) {
			s = "0" + s
		}
		s = s[:len(s)-int(n.FD)] + "." + s[len(s)-int(n.FD):]
	}
	if n.Neg {
		s = "-" + s
	}
	return s
}

// Grid returns the boundary magnitudes.
func Grid(dense bool) []uint64 {
	var mags []uint64
	add := func(v uint64) { mags = append(mags, v) }
	for _, v := range []uint64{0, 1, 2, 5, 9} {
		add(v)
	}
	p := uint64(1)
	for k := 1; k <= 19; k++ {
		p *= 10
		add(p - 1)
		add(p)
		add(p + 1)
		if dense {
			add(p / 2)
			add(p*5 - 1)
		}
	}
	for _, sh := range []uint{7, 8, 15, 16, 31, 32, 63} {
		add(1<<sh - 1)
		add(1 << sh)
		add(1<<sh + 1)
	}
	add(1<<64 - 2)
	add(1<<64 - 1)
	sort.Slice(mags, func(i, j int) bool { return mags[i] < mags[j] })
	out := mags[:0]
	for i, m := range mags {
		if i == 0 || m != mags[i-1] {
			out = append(out, m)
		}
	}
	return out
}

// InDomain reports whether (mag, neg, fd) is an integer of 64-bit magnitude or a decimal64.
func InDomain(n Num) bool {
	if n.FD == 0 {
		return true
	}
	if n.FD > 18 {
		return false
	}
	if !n.Neg {
		return n.Mag <= 1<<63-1
	}
	return n.Mag <= 1<<63
}

// ---- intervals ----

// Iv is a closed interval of scaled integers.
type Iv struct{ Lo, Hi *big.Int }

// Coalesce sorts and merges overlapping or adjacent (by one unit) intervals.
func Coalesce(in []Iv) []Iv {
	s := append([]Iv{}, in...)
	sort.SliceStable(s, func(i, j int) bool {
		if c := s[i].Lo.Cmp(s[j].Lo); c != 0 {
			return c < 0
		}
		return s[i].Hi.Cmp(s[j].Hi) < 0
	})
	var out []Iv
	one := big.NewInt(1)
	for _, r := range s {
		if len(out) > 0 {
			last := &out[len(out)-1]
			if r.Lo.Cmp(new(big.Int).Add(last.Hi, one)) <= 0 {
				if r.Hi.Cmp(last.Hi) > 0 {
					last.Hi = r.Hi
				}
				continue
			}
		}
		out = append(out, Iv{r.Lo, r.Hi})
	}
	return out
}

// Subset reports a ⊆ b for coalesced sets.
func Subset(a, b []Iv) bool {
	for _, x := range a {
		ok := false
		for _, y := range b {
			if x.Lo.Cmp(y.Lo) >= 0 && x.Hi.Cmp(y.Hi) <= 0 {
				ok = true
				break
			}
		}
		if !ok {
			return false
		}
	}
	return true
}

// Equal compares two interval lists element-wise.
func Equal(a, b []Iv) bool {
	if len(a) != len(b) {
		return false
	}
	for i := range a {
		if a[i].Lo.Cmp(b[i].Lo) != 0 || a[i].Hi.Cmp(b[i].Hi) != 0 {
			return false
		}
	}
	return true
}

// ---- enum / bits ----

// Member of an enumeration or bits type as written.
type Member struct {
	Name     string
	Explicit bool
	Value    int64
}

// Assign applies RFC 7950 9.6.4.2 / 9.7.4.2 to the sequence. It returns the assigned
// values up to the first invalid member, and the reason the sequence is invalid ("" if valid).
func Assign(seq []Member, bits bool) (values []int64, invalidAt int, reason string) {
	lo, hi := int64(-1<<31), int64(1<<31-1)
	if bits {
		lo, hi = 0, 1<<32-1
	}
	usedN := map[string]bool{}
	usedV := map[int64]bool{}
	have := false
	var max int64
	for i, m := range seq {
		var v int64
		switch {
		case usedN[m.Name]:
			return values, i, "duplicate-name"
		case m.Explicit:
			v = m.Value
			if v < lo || v > hi {
				return values, i, "out-of-range"
			}
			if !bits && usedV[v] {
				return values, i, "duplicate-value"
			}
		case !have:
			v = 0
		case max == hi:
			return values, i, "automatic-overflow"
		default:
			v = max + 1
		}
		usedN[m.Name] = true
		usedV[v] = true
		if !have || v > max {
			max = v
		}
		have = true
		values = append(values, v)
	}
	return values, -1, ""
}
