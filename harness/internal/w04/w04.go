// Package w04 is the late-fault workload shared by C04 and C07: module sets whose
// only problem arises after the first error sweep of Process (during augment
// merging or deviation application) or in a place the sweep may overlook (rpc and
// action input/output, notifications). Either Process reports an error, or - for the
// C04 reading - no node of the resulting trees may carry one; "clean result with an
// error stranded on a node" and "clean result although the fault is real" are the
// violations.
package w04

import (
	"fmt"
	"strings"

	"github.com/openconfig/goyang/pkg/yang"
	"verif/internal/job"
	"verif/internal/prng"
)

type tmpl struct {
	name    string
	augment bool // also a C07 case
	files   []string
}

const h = `namespace "urn:%s"; prefix %s;`

func hdr(n string) string { return fmt.Sprintf(h, n, n) }

var templates = []tmpl{
	{"two-modules-augment-same-name", true, []string{
		`module m { ` + hdr("m") + ` container c { %PAD } }`,
		`module a { ` + hdr("a") + ` import m { prefix m; } augment /m:c { leaf x { type string; } } }`,
		`module b { ` + hdr("b") + ` import m { prefix m; } augment /m:c { leaf x { type int8; } } }`}},
	{"augment-collides-with-existing-child", true, []string{
		`module m { ` + hdr("m") + ` grouping g { leaf x { type string; } } container c { uses g; %PAD } }`,
		`module a { ` + hdr("a") + ` import m { prefix m; } augment /m:c { container x { } } }`}},
	{"augment-collides-inside-rpc-input", true, []string{
		`module m { ` + hdr("m") + ` rpc r { input { leaf x { type string; } %PAD } } }`,
		`module a { ` + hdr("a") + ` import m { prefix m; } augment /m:r/m:input { leaf x { type string; } } }`}},
	{"augment-target-is-a-leaf", true, []string{
		`module m { ` + hdr("m") + ` container c { leaf l { type string; } %PAD } augment /m:c/m:l { leaf y { type string; } } }`}},
	{"augment-target-is-anyxml", true, []string{
		`module m { ` + hdr("m") + ` anyxml ax; anydata ad; %PAD }`,
		`module a { ` + hdr("a") + ` import m { prefix m; } augment /m:%ANY { leaf y { type string; } } }`}},
	{"augment-target-missing-after-chain", true, []string{
		`module m { ` + hdr("m") + ` container c { %PAD } augment /m:c { container a1 { } } }`,
		`module a { ` + hdr("a") + ` import m { prefix m; } augment /m:c/m:a1/m:nothere { leaf y { type string; } } }`}},
	{"augment-bogus-step-under-rpc", true, []string{
		`module m { ` + hdr("m") + ` rpc r { input { leaf x { type string; } %PAD } } augment /m:r/m:bogus/m:input { leaf y { type string; } } }`}},
	{"unknown-type-inside-rpc-io", false, []string{
		`module m { ` + hdr("m") + ` rpc r { %IO { leaf x { type nosuchtype; } %PAD } } }`}},
	{"bad-range-inside-action-output", false, []string{
		`module m { ` + hdr("m") + ` yang-version 1.1; container c { action a { output { leaf x { type uint8 { range "0..300"; } } %PAD } } } }`}},
	{"unknown-grouping-inside-rpc-input", false, []string{
		`module m { ` + hdr("m") + ` rpc r { input { uses nosuchgrouping; %PAD } } }`}},
	{"fault-inside-grouping-action-used-twice", false, []string{
		`module m { ` + hdr("m") + ` yang-version 1.1; grouping g { action a { input { leaf x { type nosuchtype; } } } } container u1 { uses g; } container u2 { uses g; %PAD } }`}},
	{"deviate-replace-unresolvable-type", false, []string{
		`module m { ` + hdr("m") + ` leaf l { type string; } %PAD }`,
		`module d { ` + hdr("d") + ` import m { prefix m; } deviation /m:l { deviate replace { type nosuchtype; } } }`}},
	{"not-supported-then-augment-of-removed-node", true, []string{
		`module m { ` + hdr("m") + ` container c { container inner { } %PAD } }`,
		`module d { ` + hdr("d") + ` import m { prefix m; } deviation /m:c/m:inner { deviate not-supported; } deviation /m:c/m:inner { deviate not-supported; } }`}},
}

func anyErrors(e *yang.Entry, depth int) string {
	if e == nil || depth > 200 {
		return ""
	}
	if len(e.Errors) > 0 {
		return e.Path() + ": " + e.Errors[0].Error()
	}
	for _, c := range e.Dir {
		if s := anyErrors(c, depth+1); s != "" {
			return s
		}
	}
	if e.RPC != nil {
		if s := anyErrors(e.RPC.Input, depth+1); s != "" {
			return s
		}
		if s := anyErrors(e.RPC.Output, depth+1); s != "" {
			return s
		}
	}
	return ""
}

// Run fills the templates with padding and load orders.
func Run(j *job.Job, s *job.Sink) {
	for c := j.Start; c < j.Start+j.Count; c++ {
		r := prng.For(j.Seed, "latefaults", j.Family, c)
		t := templates[int(c)%len(templates)]
		if j.Property == "C07" && !t.augment {
			t = templates[int(c)%7]
		}
		pads := []string{"", "leaf pad1 { type string; }", "container pad2 { leaf p { type int8; } }", "choice pad3 { leaf q { type string; } }", "leaf-list pad4 { type string; }"}
		var files []map[string]string
		order := r.Perm(len(t.files))
		for _, i := range order {
			txt := t.files[i]
			txt = strings.ReplaceAll(txt, "%PAD", pads[r.Intn(len(pads))])
			txt = strings.ReplaceAll(txt, "%ANY", []string{"ax", "ad"}[r.Intn(2)])
			txt = strings.ReplaceAll(txt, "%IO", []string{"input", "output"}[r.Intn(2)])
			files = append(files, map[string]string{"name": fmt.Sprintf("f%d.yang", i), "text": txt})
		}
		// One case in three puts the fault into the older of two loaded revisions of m: m
		// gets revision 2019-01-01, the other modules import exactly that revision, and a
		// clean m@2020-01-01 is loaded next to it (it holds the bare name m). Problems
		// recorded in the tree of the older revision must be reported all the same.
		twoRevs := r.Intn(3) == 0
		if twoRevs {
			for _, f := range files {
				f["text"] = strings.Replace(f["text"], "module m { "+hdr("m"), "module m { "+hdr("m")+" revision 2019-01-01;", 1)
				f["text"] = strings.ReplaceAll(f["text"], "import m { prefix m; }", "import m { prefix m; revision-date 2019-01-01; }")
			}
			newer := map[string]string{"name": "mnew.yang", "text": "module m { " + hdr("m") + " revision 2020-01-01; leaf newer { type string; } }"}
			at := r.Intn(len(files) + 1)
			files = append(files[:at], append([]map[string]string{newer}, files[at:]...)...)
			s.Count("late_fault_sets_in_an_older_revision", 1)
		}
		cs := map[string]any{"template": t.name, "files": files, "fault_in_older_revision": twoRevs}
		s.Current(c, cs)
		s.Count("late_fault_sets", 1)
		s.Count("nontrivial", 1)
		s.Count("template:"+t.name, 1)
		func() {
			defer func() {
				if rec := recover(); rec != nil {
					s.Violation(c, j.CaseID(c), j.Property+".latefault", "panic", fmt.Sprintf("%s: %v", t.name, rec), cs, map[string]any{"template": t.name})
				}
			}()
			ms := yang.NewModules()
			for _, f := range files {
				if err := ms.Parse(f["text"], f["name"]); err != nil {
					s.Violation(c, j.CaseID(c), j.Property+".latefault", "generator", err.Error(), cs, nil)
					return
				}
			}
			errs := ms.Process()
			if len(errs) > 0 {
				s.Count("reported", 1)
				return
			}
			stranded := ""
			for _, mm := range []map[string]*yang.Module{ms.Modules, ms.SubModules} {
				for _, m := range mm {
					if x := anyErrors(yang.ToEntry(m), 0); x != "" && stranded == "" {
						stranded = x
					}
				}
			}
			if stranded != "" {
				s.Violation(c, j.CaseID(c), j.Property+".latefault", "clean-result-with-stranded-error", fmt.Sprintf("%s: Process returned no error, yet %s", t.name, strings.SplitN(stranded, "\n", 2)[0]), cs, map[string]any{"template": t.name})
			} else {
				s.Violation(c, j.CaseID(c), j.Property+".latefault", "fault-not-reported", fmt.Sprintf("%s: Process returned no error and no node carries one", t.name), cs, map[string]any{"template": t.name})
			}
		}()
		if c%1000 == 0 {
			s.Sample(1, cs)
		}
	}
}
