// Package w04 is the late-fault workload shared by C04 and C07: module sets whose
// only problem arises after the first error sweep of Process (during augment
// merging or deviation application) or in a place the sweep may overlook (rpc and
// action input/output, notifications). Either Process reports an error, or - for the
// C04 reading - no node of the resulting trees may carry one; "clean result with an
// error stranded on a node" and "clean result although the fault is real" are the
// violations.
package w04

import (
	"fmt"
	"strings"

	"github.com/openconfig/goyang/pkg/yang"
	"verif/internal/job"
	"verif/internal/prng"
)

type tmpl struct {
	name    string
	augment bool // also a C07 case
	files   []string
	// clean templates hold no fault at all: the late step (a deviation) is legitimate, must
	// not be reported, must not strand an error anywhere, and must take effect (gone names
	// the rpc or action whose input or output it removes, as a path of child names).
	clean bool
	gone  []string
	// for clean templates: paths (child names from the root of module m) that must exist
	// afterwards, and the default values that leaves must have
	present  [][]string
	absent   [][]string // paths that must not exist afterwards
	defaults map[string]string
	// onlyFor: the template runs under this property only (it carries a recorded finding of
	// that property)
	onlyFor string
}

const h = `namespace "urn:%s"; prefix %s;`

func hdr(n string) string { return fmt.Sprintf(h, n, n) }

var templates = []tmpl{
	{name: "two-modules-augment-same-name", augment: true, files: []string{
		`module m { ` + hdr("m") + ` container c { %PAD } }`,
		`module a { ` + hdr("a") + ` import m { prefix m; } augment /m:c { leaf x { type string; } } }`,
		`module b { ` + hdr("b") + ` import m { prefix m; } augment /m:c { leaf x { type int8; } } }`}},
	{name: "augment-collides-with-existing-child", augment: true, files: []string{
		`module m { ` + hdr("m") + ` grouping g { leaf x { type string; } } container c { uses g; %PAD } }`,
		`module a { ` + hdr("a") + ` import m { prefix m; } augment /m:c { container x { } } }`}},
	{name: "augment-collides-inside-rpc-input", augment: true, files: []string{
		`module m { ` + hdr("m") + ` rpc r { input { leaf x { type string; } %PAD } } }`,
		`module a { ` + hdr("a") + ` import m { prefix m; } augment /m:r/m:input { leaf x { type string; } } }`}},
	{name: "augment-target-is-a-leaf", augment: true, files: []string{
		`module m { ` + hdr("m") + ` container c { leaf l { type string; } %PAD } augment /m:c/m:l { leaf y { type string; } } }`}},
	{name: "augment-target-is-anyxml", augment: true, files: []string{
		`module m { ` + hdr("m") + ` anyxml ax; anydata ad; %PAD }`,
		`module a { ` + hdr("a") + ` import m { prefix m; } augment /m:%ANY { leaf y { type string; } } }`}},
	{name: "augment-target-missing-after-chain", augment: true, files: []string{
		`module m { ` + hdr("m") + ` container c { %PAD } augment /m:c { container a1 { } } }`,
		`module a { ` + hdr("a") + ` import m { prefix m; } augment /m:c/m:a1/m:nothere { leaf y { type string; } } }`}},
	{name: "augment-bogus-step-under-rpc", augment: true, files: []string{
		`module m { ` + hdr("m") + ` rpc r { input { leaf x { type string; } %PAD } } augment /m:r/m:bogus/m:input { leaf y { type string; } } }`}},
	{name: "unknown-type-inside-rpc-io", augment: false, files: []string{
		`module m { ` + hdr("m") + ` rpc r { %IO { leaf x { type nosuchtype; } %PAD } } }`}},
	{name: "bad-range-inside-action-output", augment: false, files: []string{
		`module m { ` + hdr("m") + ` yang-version 1.1; container c { action a { output { leaf x { type uint8 { range "0..300"; } } %PAD } } } }`}},
	{name: "unknown-grouping-inside-rpc-input", augment: false, files: []string{
		`module m { ` + hdr("m") + ` rpc r { input { uses nosuchgrouping; %PAD } } }`}},
	{name: "fault-inside-grouping-action-used-twice", augment: false, files: []string{
		`module m { ` + hdr("m") + ` yang-version 1.1; grouping g { action a { input { leaf x { type nosuchtype; } } } } container u1 { uses g; } container u2 { uses g; %PAD } }`}},
	{name: "deviate-replace-unresolvable-type", augment: false, files: []string{
		`module m { ` + hdr("m") + ` leaf l { type string; } %PAD }`,
		`module d { ` + hdr("d") + ` import m { prefix m; } deviation /m:l { deviate replace { type nosuchtype; } } }`}},
	{name: "conflicting-augments-into-one-of-several-uses-of-a-grouping", augment: true, files: []string{
		`module m { ` + hdr("m") + ` grouping g { container lane { leaf id { type string; } } } container s0 { uses g; } container s1 { uses g; } container s2 { uses g; } container s3 { uses g; } container s4 { uses g; } container s5 { uses g; } container s6 { uses g; } container s7 { uses g; %PAD } }`,
		`module a { ` + hdr("a") + ` import m { prefix m; } augment /m:s%DIGIT/m:lane { leaf power { type string; } } }`,
		`module b { ` + hdr("b") + ` import m { prefix m; } augment /m:s%DIGIT/m:lane { leaf power { type int8; } } }`}},
	{name: "conflicting-augments-into-the-output-copy-of-a-grouping", augment: true, files: []string{
		`module m { ` + hdr("m") + ` grouping g { container job { leaf id { type string; } } } rpc start { input { uses g; } output { uses g; %PAD } } }`,
		`module a { ` + hdr("a") + ` import m { prefix m; } augment /m:start/m:%IO/m:job { leaf owner { type string; } } }`,
		`module b { ` + hdr("b") + ` import m { prefix m; } augment /m:start/m:%IO/m:job { leaf owner { type int8; } } }`}},
	{name: "augment-collides-and-the-target-is-then-removed-by-a-deviation", augment: true, files: []string{
		`module m { ` + hdr("m") + ` container top { container box { leaf x { type string; } } %PAD } }`,
		`module a { ` + hdr("a") + ` import m { prefix m; } augment /m:top/m:box { leaf x { type int8; } } }`,
		`module d { ` + hdr("d") + ` import m { prefix m; } deviation %GONE { deviate not-supported; } }`}},
	{name: "augment-without-nodes-of-a-target-that-cannot-have-children", augment: true, files: []string{
		`module m { ` + hdr("m") + ` yang-version 1.1; container top { leaf lf { type string; } leaf-list ll { type string; } anyxml ax; anydata ad; %PAD } }`,
		`module a { ` + hdr("a") + ` import m { prefix m; } grouping nothing { description "no data nodes"; } augment /m:top/m:%LEAFY { %EMPTYBODY } }`}},
	{name: "augment-through-an-implicit-case-brings-a-choice", augment: true, clean: true, files: []string{
		`module m { ` + hdr("m") + ` container c { choice ch { container x { leaf l { type string; } } } %PAD } }`,
		`module b { ` + hdr("b") + ` import m { prefix m; } augment /m:c/m:ch/m:x/m:x { choice inner { leaf p { type string; } container q { choice deeper { leaf-list r { type string; } } } } leaf plain { type string; } } }`}},
	{name: "chain-of-augments-behind-an-implicit-case", augment: true, clean: true, present: [][]string{{"c", "ch", "x", "x", "g1", "g2", "deep"}, {"c", "ch", "x", "x", "g1", "l1"}}, files: []string{
		`module m { ` + hdr("m") + ` container c { choice ch { container x { } } %PAD } }`,
		`module %N1 { ` + hdr("%N1") + ` import m { prefix m; } augment /m:c/m:ch/m:x/m:x { container g1 { leaf l1 { type string; } } } }`,
		`module %N2 { ` + hdr("%N2") + ` import m { prefix m; } import %N1 { prefix p1; } augment /m:c/m:ch/m:x/m:x/p1:g1 { container g2 { } } }`,
		`module %N3 { ` + hdr("%N3") + ` import m { prefix m; } import %N1 { prefix p1; } import %N2 { prefix p2; } augment /m:c/m:ch/m:x/m:x/p1:g1/p2:g2 { leaf deep { type string; } } }`}},
	{name: "augment-of-a-choice-brings-a-choice", augment: true, clean: true, present: [][]string{{"c", "how", "brought", "brought", "b1", "b1"}, {"c", "how", "transport", "transport", "udp", "udp", "port"}, {"c", "how", "a", "a"}}, files: []string{
		`module m { ` + hdr("m") + ` container c { choice how { leaf a { type string; } } %PAD } }`,
		`module b { ` + hdr("b") + ` import m { prefix m; } grouping gch { choice transport { leaf tcp { type string; } container udp { leaf port { type string; } } } } augment /m:c/m:how { choice brought { leaf b1 { type string; } case b2 { leaf b2l { type string; } } } uses gch; } }`}},
	{name: "augment-written-in-a-submodule-has-no-target", augment: true, files: []string{
		`module m { ` + hdr("m") + ` include s; container c { leaf l { type string; } %PAD } }`,
		`submodule s { belongs-to m { prefix m; } container sc { leaf sl { type string; } } augment "%SUBBAD" { leaf y { type string; } } }`}},
	// (recorded finding c07-path-that-names-an-implicit-case-reaches-the-member: goyang looks the
	// path up before the implicit cases exist, so /m:c/m:ch/m:x is the container x, not the case)
	{name: "augment-path-names-the-implicit-case-of-a-shorthand-member", augment: true, clean: true, onlyFor: "C07", present: [][]string{{"c", "ch", "x", "y"}, {"c", "ch", "x", "x", "l"}}, files: []string{
		`module m { ` + hdr("m") + ` container c { choice ch { container x { leaf l { type string; } } } %PAD } }`,
		`module b { ` + hdr("b") + ` import m { prefix m; } augment /m:c/m:ch/m:x { leaf y { type string; } } }`}},
	{name: "augment-in-a-submodule-revision-that-nothing-includes", augment: true, clean: true, present: [][]string{{"c", "new"}, {"c", "own"}, {"snew"}}, absent: [][]string{{"c", "old"}, {"sold"}}, files: []string{
		`module m { ` + hdr("m") + ` include s; container c { leaf own { type string; } %PAD } }`,
		`submodule s { belongs-to m { prefix m; } revision 2019-01-01; augment "/m:c" { leaf old { type string; } } leaf sold { type string; } }`,
		`submodule s { belongs-to m { prefix m; } revision 2020-01-01; augment "/m:c" { leaf new { type string; } } leaf snew { type string; } }`}},
	{name: "late-augment-written-in-a-submodule-brings-a-choice", augment: true, clean: true, present: [][]string{{"c", "ch", "x", "x", "inner", "b", "b"}, {"c", "ch", "x", "x", "late", "l2", "l2", "deep"}, {"c", "ch", "x", "x", "late", "l1", "l1"}}, files: []string{
		`module m { ` + hdr("m") + ` include s; container c { choice ch { container x { choice inner { leaf a { type string; } } } } %PAD } }`,
		`submodule s { belongs-to m { prefix m; } augment "/m:c/m:ch/m:x/m:x" { choice late { leaf l1 { type string; } container l2 { leaf deep { type string; } } } } augment "/m:c/m:ch/m:x/m:x/m:inner" { leaf b { type string; } } }`}},
	{name: "not-supported-twice-in-one-deviation-written-in-a-submodule", files: []string{
		`module m { ` + hdr("m") + ` include s; container c { leaf x { type string; } leaf y { type string; } %PAD } rpc r { input { leaf i { type string; } } } }`,
		`submodule s { belongs-to m { prefix m; } deviation %SUBDEV { deviate not-supported; deviate not-supported; } }`}},
	{name: "augment-path-leaves-out-an-explicit-case", augment: true, files: []string{
		`module m { ` + hdr("m") + ` container top { choice ch { case c1 { container cont { leaf in { type string; } } } case c2 { leaf other { type string; } } } %PAD } rpc r { input { choice how { case by-name { container sel { leaf n { type string; } } } } } } }`,
		`module b { ` + hdr("b") + ` import m { prefix m; } augment %NOCASE { leaf bad { type string; } } }`}},
	{name: "augment-of-an-rpc-or-action-itself", augment: true, files: []string{
		`module m { ` + hdr("m") + ` yang-version 1.1; rpc r { input { leaf i { type string; } } } container c { action a { input { leaf j { type string; } } } %PAD } }`,
		`module b { ` + hdr("b") + ` import m { prefix m; } augment /m:%OPPATH { leaf y { type string; } } }`}},
	{name: "augment-whose-relative-path-leads-into-the-augment-itself", augment: true, files: []string{
		`module m { ` + hdr("m") + ` container top { leaf a { type string; } %PAD } augment "%SELFPATH" { container c { leaf x { type string; } } leaf y { type string; } } }`}},
	{name: "deviate-gives-a-type-to-a-node-that-is-no-leaf", files: []string{
		`module m { ` + hdr("m") + ` container c { leaf x { type string; } } list l { key k; leaf k { type string; } } choice ch { leaf a { type string; } } %PAD }`,
		`module d { ` + hdr("d") + ` import m { prefix m; } deviation /m:%NOLEAF { deviate %ADDREP { type int8; } } }`}},
	{name: "include-of-a-submodule-that-belongs-to-another-module", files: []string{
		`module m { ` + hdr("m") + ` include s; container own { } %PAD }`,
		`module o { ` + hdr("o") + ` leaf ol { type string; } }`,
		`submodule s { belongs-to o { prefix o; } container sc { leaf l { type string; } } }`}},
	{name: "augment-collides-in-the-output-of-an-rpc-that-has-no-input", augment: true, files: []string{
		`module m { ` + hdr("m") + ` rpc r { output { leaf o { type string; } } } %PAD }`,
		`module b { ` + hdr("b") + ` import m { prefix m; } augment /m:r/m:output { leaf o { type int8; } } }`}},
	{name: "augment-collides-below-the-output-of-an-action-that-has-no-input", augment: true, files: []string{
		`module m { ` + hdr("m") + ` yang-version 1.1; list l { key k; leaf k { type string; } action a { output { container oc { leaf o { type string; } } } } } %PAD }`,
		`module b { ` + hdr("b") + ` import m { prefix m; } augment /m:l/m:a/m:output/m:oc { leaf o { type int8; } } }`}},
	{name: "not-supported-twice-and-then-the-parent-is-removed", files: []string{
		`module m { ` + hdr("m") + ` container c { leaf x { type string; } leaf y { type string; } } %PAD }`,
		`module d { ` + hdr("d") + ` import m { prefix m; } deviation /m:c/m:x { deviate not-supported; deviate not-supported; } deviation /m:c { deviate not-supported; } }`}},
	{name: "deviation-without-target-in-a-submodule-named-like-a-loaded-module", files: []string{
		`module m { ` + hdr("m") + ` leaf l1 { type string; } leaf l2 { type string; } %PAD }`,
		`module x { ` + hdr("x") + ` import m { prefix m; } deviation /m:l1 { deviate add { default "dm"; } } }`,
		`module y { ` + hdr("y") + ` include x; }`,
		`submodule x { belongs-to y { prefix y; } import m { prefix m; } deviation /m:l2 { deviate add { default "ds"; } } deviation /m:nosuch { deviate not-supported; } }`}},
	{name: "not-supported-twice-in-one-deviation", files: []string{
		`module m { ` + hdr("m") + ` container c { leaf x { type string; } leaf y { type string; } %PAD } }`,
		`module d { ` + hdr("d") + ` import m { prefix m; } deviation /m:c/m:x { deviate not-supported; deviate not-supported; } }`}},
	{name: "unprefixed-paths-written-in-a-submodule", augment: true, clean: true, present: [][]string{{"top", "x"}, {"c", "y"}}, defaults: map[string]string{"sc/sl": "dx", "c/l": "dy"}, files: []string{
		`module m { ` + hdr("m") + ` include s; container c { leaf l { type string; } %PAD } }`,
		`submodule s { belongs-to m { prefix m; } container top { } container sc { leaf sl { type string; } } augment "/top" { leaf x { type string; } } augment /c { leaf y { type string; } } deviation /sc/sl { deviate add { default "dx"; } } deviation /c/l { deviate add { default "dy"; } } }`}},
	{name: "paths-with-the-belongs-to-prefix-written-in-a-submodule", augment: true, clean: true, present: [][]string{{"sc", "x"}, {"c", "y"}}, defaults: map[string]string{"sc/sl": "dx", "c/l": "dy"}, files: []string{
		`module m { ` + hdr("m") + ` include s; container c { leaf l { type string; } %PAD } }`,
		`submodule s { belongs-to m { prefix m; } container sc { leaf sl { type string; } } augment "/m:sc" { leaf x { type string; } } augment /m:c { leaf y { type string; } } deviation /m:sc/m:sl { deviate add { default "dx"; } } deviation /m:c/m:l { deviate add { default "dy"; } } }`}},
	{name: "paths-with-another-belongs-to-prefix-written-in-a-submodule", augment: true, clean: true, present: [][]string{{"sc", "x"}, {"c", "y"}}, defaults: map[string]string{"sc/sl": "dx", "c/l": "dy"}, files: []string{
		`module m { ` + hdr("m") + ` include s; container c { leaf l { type string; } %PAD } }`,
		`submodule s { belongs-to m { prefix own; } container sc { leaf sl { type string; } } augment "/own:sc" { leaf x { type string; } } augment /own:c { leaf y { type string; } } deviation /own:sc/own:sl { deviate add { default "dx"; } } deviation /own:c/own:l { deviate add { default "dy"; } } }`}},
	{name: "default-added-to-a-choice-that-has-one", files: []string{
		`module m { ` + hdr("m") + ` container c { choice transport { default tcp; leaf tcp { type string; } leaf udp { type string; } case other { leaf o { type string; } } } %PAD } }`,
		`module d { ` + hdr("d") + ` import m { prefix m; } deviation /m:c/m:transport { deviate add { default udp; } } }`}},
	{name: "not-supported-on-rpc-input-or-output", clean: true, gone: []string{"r"}, files: []string{
		`module m { ` + hdr("m") + ` rpc r { input { leaf i { type string; } } output { leaf o { type string; } } } %PAD }`,
		`module d { ` + hdr("d") + ` import m { prefix m; } deviation /m:r/m:%IO { deviate not-supported; } }`}},
	{name: "not-supported-on-action-input-or-output-of-one-use", clean: true, gone: []string{"u1", "a"}, files: []string{
		`module m { ` + hdr("m") + ` yang-version 1.1; grouping g { action a { input { leaf i { type string; } } output { leaf o { type string; } } } } container u1 { uses g; } container u2 { uses g; %PAD } }`,
		`module d { ` + hdr("d") + ` import m { prefix m; } deviation /m:u1/m:a/m:%IO { deviate not-supported; } }`}},
	{name: "not-supported-then-augment-of-removed-node", augment: true, files: []string{
		`module m { ` + hdr("m") + ` container c { container inner { } %PAD } }`,
		`module d { ` + hdr("d") + ` import m { prefix m; } deviation /m:c/m:inner { deviate not-supported; } deviation /m:c/m:inner { deviate not-supported; } }`}},
}

func anyErrors(e *yang.Entry, depth int) string {
	if e == nil || depth > 200 {
		return ""
	}
	if len(e.Errors) > 0 {
		return e.Path() + ": " + e.Errors[0].Error()
	}
	for _, c := range e.Dir {
		if s := anyErrors(c, depth+1); s != "" {
			return s
		}
	}
	if e.RPC != nil {
		if s := anyErrors(e.RPC.Input, depth+1); s != "" {
			return s
		}
		if s := anyErrors(e.RPC.Output, depth+1); s != "" {
			return s
		}
	}
	return ""
}

// Run fills the templates with padding and load orders.
func Run(j *job.Job, s *job.Sink) {
	for c := j.Start; c < j.Start+j.Count; c++ {
		r := prng.For(j.Seed, "latefaults", j.Family, c)
		var pool []tmpl
		for _, x := range templates {
			isDev := false
			for _, f := range x.files {
				isDev = isDev || strings.Contains(f, "deviation ")
			}
			// (C07 runs the templates about augments, C08 those that have a deviation)
			if (x.onlyFor == "" || x.onlyFor == j.Property) && (j.Property != "C07" || x.augment) && (j.Property != "C08" || isDev) {
				pool = append(pool, x)
			}
		}
		t := pool[int(c)%len(pool)]
		pads := []string{"", "leaf pad1 { type string; }", "container pad2 { leaf p { type int8; } }", "choice pad3 { leaf q { type string; } }", "leaf-list pad4 { type string; }"}
		var files []map[string]string
		order := r.Perm(len(t.files))
		io := []string{"input", "output"}[r.Intn(2)]
		digit := fmt.Sprint(r.Intn(8))
		names3 := [][]string{{"a", "b", "d"}, {"a", "d", "b"}, {"b", "a", "d"}, {"b", "d", "a"}, {"d", "a", "b"}, {"d", "b", "a"}}[r.Intn(6)]
		for _, i := range order {
			txt := t.files[i]
			txt = strings.ReplaceAll(txt, "%PAD", pads[r.Intn(len(pads))])
			txt = strings.ReplaceAll(txt, "%ANY", []string{"ax", "ad"}[r.Intn(2)])
			txt = strings.ReplaceAll(txt, "%IO", io)
			txt = strings.ReplaceAll(txt, "%DIGIT", digit)
			txt = strings.ReplaceAll(txt, "%NOCASE", []string{"/m:top/m:ch/m:cont", "/m:r/m:input/m:how/m:sel", "/m:top/m:ch/m:other", "/m:top/m:ch/m:cont/m:in/.."}[r.Intn(4)])
			txt = strings.ReplaceAll(txt, "%OPPATH", []string{"r", "c/m:a"}[r.Intn(2)])
			txt = strings.ReplaceAll(txt, "%SELFPATH", []string{"c", ".", "c/x", "y", "./c", "c/../c"}[r.Intn(6)])
			txt = strings.ReplaceAll(txt, "%N1", names3[0])
			txt = strings.ReplaceAll(txt, "%N2", names3[1])
			txt = strings.ReplaceAll(txt, "%N3", names3[2])
			txt = strings.ReplaceAll(txt, "%SUBBAD", []string{"/m:c/m:missing", "/m:c/m:l", "/m:nowhere", "/c/missing", "/sc/sl", "/m:sc/m:nothere"}[r.Intn(6)])
			txt = strings.ReplaceAll(txt, "%NOLEAF", []string{"c", "l", "ch"}[r.Intn(3)])
			txt = strings.ReplaceAll(txt, "%ADDREP", []string{"add", "replace"}[r.Intn(2)])
			txt = strings.ReplaceAll(txt, "%SUBDEV", []string{"/m:c/m:x", "/m:r/m:input", "/c/y"}[r.Intn(3)])
			txt = strings.ReplaceAll(txt, "%GONE", []string{"/m:top/m:box", "/m:top"}[r.Intn(2)])
			txt = strings.ReplaceAll(txt, "%LEAFY", []string{"lf", "ll", "ax", "ad"}[r.Intn(4)])
			txt = strings.ReplaceAll(txt, "%EMPTYBODY", []string{"uses nothing;", "description \"nothing\";", "when \"../m:lf\";", "uses nothing; reference \"r\";", ""}[r.Intn(5)])
			files = append(files, map[string]string{"name": fmt.Sprintf("f%d.yang", i), "text": txt})
		}
		// One case in three puts the fault into the older of two loaded revisions of m: m
		// gets revision 2019-01-01, the other modules import exactly that revision, and a
		// clean m@2020-01-01 is loaded next to it (it holds the bare name m). Problems
		// recorded in the tree of the older revision must be reported all the same.
		// (not for templates with a submodule: which revision a submodule belongs to is
		// settled by the bare name, the recorded finding c13-two-revisions-share-a-submodule
		// lives there)
		twoRevs := r.Intn(3) == 0 && !strings.Contains(strings.Join(t.files, " "), "submodule ")
		if twoRevs {
			for _, f := range files {
				f["text"] = strings.Replace(f["text"], "module m { "+hdr("m"), "module m { "+hdr("m")+" revision 2019-01-01;", 1)
				f["text"] = strings.ReplaceAll(f["text"], "import m { prefix m; }", "import m { prefix m; revision-date 2019-01-01; }")
			}
			newer := map[string]string{"name": "mnew.yang", "text": "module m { " + hdr("m") + " revision 2020-01-01; leaf newer { type string; } }"}
			at := r.Intn(len(files) + 1)
			files = append(files[:at], append([]map[string]string{newer}, files[at:]...)...)
			s.Count("late_fault_sets_in_an_older_revision", 1)
		}
		// One case in four has the augmenting module (a or b) in two revisions: the augment
		// stands in the older one, a newer revision without it is loaded next to it. What the
		// older revision says counts all the same. (Not so for deviating modules: goyang
		// applies the deviations of a module name once, those of its latest revision.)
		stepOlder := !twoRevs && r.Intn(4) == 0
		if stepOlder {
			done := false
			for _, f := range files {
				for _, n := range []string{"a", "b"} {
					head := "module " + n + " { " + hdr(n)
					if !done && strings.HasPrefix(f["text"], head) {
						f["text"] = strings.Replace(f["text"], head, head+" revision 2019-01-01;", 1)
						newer := map[string]string{"name": n + "new.yang", "text": "module " + n + " { " + hdr(n) + " revision 2020-01-01; }"}
						at := r.Intn(len(files) + 1)
						files = append(files[:at], append([]map[string]string{newer}, files[at:]...)...)
						done = true
					}
				}
				if done {
					break
				}
			}
			if done {
				s.Count("late_fault_sets_with_the_step_in_an_older_revision", 1)
			}
		}
		cs := map[string]any{"template": t.name, "files": files, "fault_in_older_revision": twoRevs, "step_in_older_revision": stepOlder}
		s.Current(c, cs)
		s.Count("late_fault_sets", 1)
		s.Count("nontrivial", 1)
		s.Count("template:"+t.name, 1)
		func() {
			defer func() {
				if rec := recover(); rec != nil {
					s.Violation(c, j.CaseID(c), j.Property+".latefault", "panic", fmt.Sprintf("%s: %v", t.name, rec), cs, map[string]any{"template": t.name})
				}
			}()
			ms := yang.NewModules()
			for _, f := range files {
				if err := ms.Parse(f["text"], f["name"]); err != nil {
					s.Violation(c, j.CaseID(c), j.Property+".latefault", "generator", err.Error(), cs, nil)
					return
				}
			}
			errs := ms.Process()
			if len(errs) > 0 && t.clean {
				s.Violation(c, j.CaseID(c), j.Property+".latefault", "spurious-error", fmt.Sprintf("%s: %v", t.name, errs[0]), cs, map[string]any{"template": t.name})
				return
			}
			if len(errs) > 0 {
				s.Count("reported", 1)
				return
			}
			stranded := ""
			for _, mm := range []map[string]*yang.Module{ms.Modules, ms.SubModules} {
				for _, m := range mm {
					if x := anyErrors(yang.ToEntry(m), 0); x != "" && stranded == "" {
						stranded = x
					}
				}
			}
			if t.clean && stranded == "" {
				// whatever the late step brought is part of a proper tree: below a choice
				// there are cases only, and nothing is left to be applied
				var improper string
				var chk func(e *yang.Entry, d int)
				chk = func(e *yang.Entry, d int) {
					if e == nil || d > 100 || improper != "" {
						return
					}
					if len(e.Augments) > 0 {
						improper = e.Path() + " still holds an augment"
					}
					for k, ce := range e.Dir {
						if e.Kind == yang.ChoiceEntry && ce.Kind != yang.CaseEntry {
							improper = fmt.Sprintf("%s: the child %s of a choice is not a case", e.Path(), k)
						}
						chk(ce, d+1)
					}
					if e.RPC != nil {
						chk(e.RPC.Input, d+1)
						chk(e.RPC.Output, d+1)
					}
				}
				for _, m := range ms.Modules {
					chk(yang.ToEntry(m), 0)
				}
				if improper != "" {
					s.Violation(c, j.CaseID(c), j.Property+".latefault", "clean-result-with-improper-tree", t.name+": "+improper, cs, map[string]any{"template": t.name})
					return
				}
				if t.present != nil || t.defaults != nil || t.absent != nil {
					mname := "m"
					if twoRevs {
						mname = "m@2019-01-01"
					}
					root := yang.ToEntry(ms.Modules[mname])
					at := func(path []string) *yang.Entry {
						e := root
						for _, st := range path {
							if e != nil {
								e = e.Dir[st]
							}
						}
						return e
					}
					for _, pth := range t.present {
						if at(pth) == nil {
							s.Violation(c, j.CaseID(c), j.Property+".latefault", "late-step-not-applied", fmt.Sprintf("%s: /%s is not in the tree of module m", t.name, strings.Join(pth, "/")), cs, map[string]any{"template": t.name})
							return
						}
					}
					for _, pth := range t.absent {
						if at(pth) != nil {
							s.Violation(c, j.CaseID(c), j.Property+".latefault", "late-step-applied-wrongly", fmt.Sprintf("%s: /%s is in the tree of module m", t.name, strings.Join(pth, "/")), cs, map[string]any{"template": t.name})
							return
						}
					}
					for pth, d := range t.defaults {
						if e := at(strings.Split(pth, "/")); e == nil || len(e.Default) != 1 || e.Default[0] != d {
							s.Violation(c, j.CaseID(c), j.Property+".latefault", "late-step-not-applied", fmt.Sprintf("%s: /%s does not have the default %q", t.name, pth, d), cs, map[string]any{"template": t.name})
							return
						}
					}
				}
				if t.gone == nil {
					s.Count("clean_templates_held", 1)
					return
				}
				// the deviation took effect: the named input or output is gone, the other stays
				mname := "m"
				if twoRevs {
					mname = "m@2019-01-01"
				}
				e := yang.ToEntry(ms.Modules[mname])
				for _, st := range t.gone {
					if e != nil {
						e = e.Dir[st]
					}
				}
				switch {
				case e == nil || e.RPC == nil:
					s.Violation(c, j.CaseID(c), j.Property+".latefault", "deviation-not-applied", t.name+": the rpc or action is gone altogether", cs, map[string]any{"template": t.name})
				case io == "input" && (e.RPC.Input != nil || e.RPC.Output == nil), io == "output" && (e.RPC.Output != nil || e.RPC.Input == nil):
					s.Violation(c, j.CaseID(c), j.Property+".latefault", "deviation-not-applied", fmt.Sprintf("%s: after deviate not-supported on the %s: input present %v, output present %v", t.name, io, e.RPC.Input != nil, e.RPC.Output != nil), cs, map[string]any{"template": t.name})
				default:
					s.Count("clean_templates_held", 1)
				}
				return
			}
			if stranded != "" {
				s.Violation(c, j.CaseID(c), j.Property+".latefault", "clean-result-with-stranded-error", fmt.Sprintf("%s: Process returned no error, yet %s", t.name, strings.SplitN(stranded, "\n", 2)[0]), cs, map[string]any{"template": t.name})
			} else {
				s.Violation(c, j.CaseID(c), j.Property+".latefault", "fault-not-reported", fmt.Sprintf("%s: Process returned no error and no node carries one", t.name), cs, map[string]any{"template": t.name})
			}
		}()
		if c%1000 == 0 {
			s.Sample(1, cs)
		}
	}
}
