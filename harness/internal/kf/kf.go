// Package kf matches violation records against the committed list of known
// findings. The list is read-only at run time.
package kf

import (
	"encoding/json"
	"os"
	"regexp"
	"strings"

	"verif/internal/job"
)

// A Finding is one entry of known_findings.json.
type Finding struct {
	ID       string `json:"id"`
	Property string `json:"property"`
	Status   string `json:"status"` // "open" or "fixed"
	Commit   string `json:"commit,omitempty"`
	What     string `json:"what"`

	// How an open finding is recognised. All given conditions must hold.
	Monitor     string            `json:"monitor,omitempty"`
	Class       string            `json:"class,omitempty"`
	Classes     []string          `json:"classes,omitempty"` // any of these classes
	Family      string            `json:"family,omitempty"`  // workload family that runs the witness
	Record      string            `json:"record,omitempty"`  // for fixed entries: "fixed: property=<id> <commit> <what failed>"
	DetailRegex string            `json:"detail_regex,omitempty"`
	Facts       map[string]any    `json:"facts,omitempty"`     // every listed fact must be present with this value
	Predicate   string            `json:"predicate,omitempty"` // named predicate implemented in this package
	Witness     json.RawMessage   `json:"witness,omitempty"`   // concrete failing input, run on every check
	Notes       map[string]string `json:"notes,omitempty"`

	re *regexp.Regexp
}

type File struct {
	Findings []*Finding `json:"findings"`
}

// Load reads the file; a missing file is an empty list.
func Load(path string) (*File, error) {
	var f File
	data, err := os.ReadFile(path)
	if os.IsNotExist(err) {
		return &f, nil
	}
	if err != nil {
		return nil, err
	}
	if err := json.Unmarshal(data, &f); err != nil {
		return nil, err
	}
	for _, fd := range f.Findings {
		if fd.DetailRegex != "" {
			re, err := regexp.Compile(fd.DetailRegex)
			if err != nil {
				return nil, err
			}
			fd.re = re
		}
	}
	return &f, nil
}

// Predicates are the named predicates; they see the whole record.
var Predicates = map[string]func(*job.Record) bool{
	// the case is one of the two of C01's deep family (the case description says so)
	"c01-deep-family-case": func(r *job.Record) bool {
		return strings.Contains(string(r.Case), `"family":"deep"`)
	},
}

// Match returns the open finding that explains r, or nil.
func (f *File) Match(property string, r *job.Record) *Finding {
	for _, fd := range f.Findings {
		if fd.Status != "open" || fd.Property != property {
			continue
		}
		if fd.Monitor != "" && fd.Monitor != r.Monitor {
			continue
		}
		if fd.Class != "" && fd.Class != r.Class {
			continue
		}
		if len(fd.Classes) > 0 {
			in := false
			for _, c := range fd.Classes {
				in = in || c == r.Class
			}
			if !in {
				continue
			}
		}
		if fd.re != nil && !fd.re.MatchString(r.Detail) {
			continue
		}
		ok := true
		for k, v := range fd.Facts {
			a, _ := json.Marshal(r.Facts[k])
			b, _ := json.Marshal(v)
			if string(a) != string(b) {
				ok = false
			}
		}
		if !ok {
			continue
		}
		if fd.Predicate != "" {
			p := Predicates[fd.Predicate]
			if p == nil || !p(r) {
				continue
			}
		}
		// An entry with no condition at all would swallow everything: refuse it.
		if fd.Monitor == "" && fd.Class == "" && len(fd.Classes) == 0 && fd.re == nil && len(fd.Facts) == 0 && fd.Predicate == "" {
			continue
		}
		return fd
	}
	return nil
}
