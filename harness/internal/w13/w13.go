// Package w13 holds the three workloads of C13: the revision table under all
// load orders, the file chooser over generated directory layouts, and
// include == inline over random splits of a module into submodules.
package w13

import (
	"encoding/json"
	"fmt"
	"math/rand"
	"os"
	"path/filepath"
	"regexp"
	"sort"
	"strings"

	"github.com/openconfig/goyang/pkg/yang"
	"verif/internal/dump"
	"verif/internal/hooklog"
	"verif/internal/job"
	"verif/internal/prng"
	"verif/internal/schema"
)

// ---------- (a) revision table ----------

type hdr struct {
	Name string   `json:"name"`
	Revs []string `json:"revisions"`
	ID   int      `json:"id"`
	// NS is the namespace of this revision when it is not urn:<name>: a module may change
	// its namespace from one revision to the next (never to that of a module of another name)
	NS string `json:"ns,omitempty"`
}

func (h hdr) ns() string {
	if h.NS != "" {
		return h.NS
	}
	return "urn:" + h.Name
}

func (h hdr) latest() string {
	l := ""
	for _, r := range h.Revs {
		if r > l {
			l = r
		}
	}
	return l
}

func (h hdr) text() string {
	s := fmt.Sprintf("module %s { namespace \"%s\"; prefix p; ", h.Name, h.ns())
	for _, r := range h.Revs {
		s += "revision " + r + "; "
	}
	return s + fmt.Sprintf("leaf mark%d { type string; } identity idm; typedef tdm { type string; units \"u%d\"; } }", h.ID, h.ID)
}

func allPerms(n int) [][]int {
	if n == 1 {
		return [][]int{{0}}
	}
	var out [][]int
	for _, p := range allPerms(n - 1) {
		for i := 0; i <= len(p); i++ {
			q := append([]int{}, p[:i]...)
			q = append(q, n-1)
			q = append(q, p[i:]...)
			out = append(out, q)
		}
	}
	return out
}

// genHeaders draws one set of module headers and an importer.
func genHeaders(seed, c int64) ([]hdr, hdr, string) {
	dates := []string{"2019-05-05", "2020-01-01", "2020-12-31", "2021-06-01", "2018-11-30", "2021-05-31"}
	r := prng.For(seed, "C13", "revisions", c)
	n := 2 + r.Intn(3)
	var hs []hdr
	seen := map[string]bool{}
	for i := 0; i < n; i++ {
		h := hdr{Name: []string{"a", "a", "a", "b"}[r.Intn(4)], ID: i}
		// up to four revision statements in any order: the latest one counts wherever it stands
		for q := []int{0, 1, 1, 2, 2, 3, 4}[r.Intn(7)]; q > 0; q-- {
			h.Revs = append(h.Revs, dates[r.Intn(len(dates))])
		}
		if r.Intn(3) == 0 {
			h.NS = fmt.Sprintf("urn:%s:v%d", h.Name, r.Intn(2))
		}
		k := h.Name + "@" + h.latest()
		if seen[k] {
			continue // the same (name, revision) twice is rejected by design, first one wins
		}
		seen[k] = true
		hs = append(hs, h)
	}
	if len(hs) < 2 {
		return nil, hdr{}, ""
	}
	// an importer that names a revision and one that does not
	imp := hs[r.Intn(len(hs))]
	importer := fmt.Sprintf("module u { namespace \"urn:u\"; prefix u; import %s { prefix x; } identity uy { base x:idm; } leaf ul { type identityref { base x:idm; } } leaf ut { type x:tdm; } }", imp.Name)
	if imp.latest() != "" && r.Intn(2) == 0 {
		importer = fmt.Sprintf("module u { namespace \"urn:u\"; prefix u; import %s { prefix x; revision-date %s; } identity uy { base x:idm; } leaf ul { type identityref { base x:idm; } } leaf ut { type x:tdm; } }", imp.Name, imp.latest())
	}
	return hs, imp, importer
}

// Revisions: sets of module headers, every load order. Witnesses of open known
// findings (params["witnesses"], a JSON list of header sets) run first, with
// negative case numbers.
func Revisions(j *job.Job, s *job.Sink) {
	var wit [][]hdr
	if w := j.Params["witnesses"]; w != "" {
		json.Unmarshal([]byte(w), &wit)
	}
	for i, hs := range wit {
		checkHeaders(j, s, int64(-1-i), hs, hs[0], fmt.Sprintf("module u { namespace \"urn:u\"; prefix u; import %s { prefix x; } }", hs[0].Name))
	}
	for c := j.Start; c < j.Start+j.Count; c++ {
		hs, imp, importer := genHeaders(j.Seed, c)
		if hs == nil {
			continue
		}
		checkHeaders(j, s, c, hs, imp, importer)
		if c%4 == 0 && j.Property == "C13" {
			checkIncludes(j, s, c, prng.For(j.Seed, "C13", "includes", c))
		}
		if c%500 == 0 {
			s.Sample(1, hs)
		}
	}
}

// checkIncludes: several revisions of one submodule are loaded next to a module that
// includes it with or without a revision-date, in every load order. The include must be
// bound to exactly the named revision (to the latest when none is named), and the
// module's tree must hold that revision's data node and typedef and no other's.
func checkIncludes(j *job.Job, s *job.Sink, c int64, r *rand.Rand) {
	dates := []string{"2019-05-05", "2020-01-01", "2020-12-31", "2021-06-01"}
	r.Shuffle(len(dates), func(a, b int) { dates[a], dates[b] = dates[b], dates[a] })
	n := 2 + r.Intn(2)
	revs := dates[:n]
	types := []string{"int8", "string", "boolean", "uint32"}
	var texts []string
	for i, d := range revs {
		texts = append(texts, fmt.Sprintf("submodule s { belongs-to m { prefix m; } revision %s; typedef st { type %s; } leaf mark%d { type st; } augment \"/m:box\" { leaf aug%d { type st; } } }", d, types[i], i, i))
	}
	latest := 0
	for i, d := range revs {
		if d > revs[latest] {
			latest = i
		}
	}
	want := latest
	inc := "include s;"
	if r.Intn(3) > 0 {
		want = r.Intn(n)
		inc = fmt.Sprintf("include s { revision-date %s; }", revs[want])
	}
	texts = append(texts, fmt.Sprintf("module m { namespace \"urn:m\"; prefix m; %s include o; leaf top { type st; } container box { } }", inc))
	// a sibling submodule that uses the typedef too: it sees it through the module, so in
	// the revision the module includes
	texts = append(texts, "submodule o { belongs-to m { prefix m; } leaf viaother { type st; } typedef ot { type m:st; } leaf viaother2 { type ot; } }")
	desc := map[string]any{"texts": texts}
	s.Current(c, desc)
	s.Count("include_sets", 1)
	s.Count("nontrivial", 1)
	reported := map[string]bool{}
	bad := func(class, detail string) {
		if !reported[class] {
			reported[class] = true
			s.Violation(c, j.CaseID(c), "C13.includes", class, detail, desc, nil)
		}
	}
	for _, p := range allPerms(len(texts)) {
		s.Count("load_orders", 1)
		ms := yang.NewModules()
		ok := true
		for _, i := range p {
			if err := ms.Parse(texts[i], fmt.Sprintf("f%d.yang", i)); err != nil {
				bad("include-load-rejected", fmt.Sprintf("load order %v: %v", p, err))
				ok = false
			}
		}
		if !ok {
			continue
		}
		if errs := ms.Process(); len(errs) > 0 {
			bad("include-process-error", fmt.Sprintf("load order %v: %v", p, errs[0]))
			continue
		}
		m := ms.Modules["m"]
		got := m.Include[0].Module
		if m.Include[0].Name != "s" {
			got = m.Include[1].Module
		}
		if got == nil || len(got.Leaf) == 0 || got.Leaf[0].Name != fmt.Sprintf("mark%d", want) {
			g := "nothing"
			if got != nil {
				g = got.FullName()
			}
			bad("include-binds-wrong-revision", fmt.Sprintf("load order %v: %q bound to %s, want s@%s", p, inc, g, revs[want]))
			continue
		}
		e := yang.ToEntry(m)
		for i := range revs {
			// what the revisions augment into the module: that of the included one, no other
			if box := e.Dir["box"]; box != nil {
				if _, there := box.Dir[fmt.Sprintf("aug%d", i)]; there != (i == want) {
					bad("include-augment-of-wrong-revision", fmt.Sprintf("load order %v: %q: the node that the augment of s@%s brings: present=%v", p, inc, revs[i], there))
				}
			}
			_, present := e.Dir[fmt.Sprintf("mark%d", i)]
			if present != (i == want) {
				bad("include-merges-wrong-revision", fmt.Sprintf("load order %v: %q: data node of s@%s present=%v", p, inc, revs[i], present))
			}
		}
		if t := e.Dir["top"]; t == nil || t.Type == nil || t.Type.Kind.String() != types[want] {
			bad("include-typedef-of-wrong-revision", fmt.Sprintf("load order %v: %q: leaf top does not have the type of s@%s", p, inc, revs[want]))
		}
		for _, ln := range []string{"viaother", "viaother2"} {
			if t := e.Dir[ln]; t == nil || t.Type == nil || t.Type.Kind.String() != types[want] {
				bad("include-typedef-of-wrong-revision", fmt.Sprintf("load order %v: %q: leaf %s (written in a sibling submodule) does not have the type of s@%s", p, inc, ln, revs[want]))
			}
		}
		s.Count("includes_checked", 1)
	}
	// A submodule merges into its owner and nowhere else: a module (or a submodule of
	// another module) that includes a submodule which says it belongs to m is reported,
	// in every load order, and the foreign definitions do not appear in its tree.
	viaSub := r.Intn(2) == 0
	foreign := []string{
		"submodule s { belongs-to m { prefix m; } leaf mark { type string; } }",
		"module m { namespace \"urn:m\"; prefix m; include s; leaf top { type string; } }",
	}
	if viaSub {
		foreign = append(foreign, "module q { namespace \"urn:q\"; prefix q; include qs; leaf own { type string; } }", "submodule qs { belongs-to q { prefix q; } include s; leaf qmark { type string; } }")
	} else {
		foreign = append(foreign, "module q { namespace \"urn:q\"; prefix q; include s; leaf own { type string; } }")
	}
	fdesc := map[string]any{"texts": foreign}
	for _, p := range allPerms(len(foreign)) {
		s.Count("load_orders", 1)
		ms := yang.NewModules()
		for _, i := range p {
			if err := ms.Parse(foreign[i], fmt.Sprintf("g%d.yang", i)); err != nil {
				s.Violation(c, j.CaseID(c), "C13.includes", "include-load-rejected", fmt.Sprintf("load order %v: %v", p, err), fdesc, nil)
				return
			}
		}
		errs := ms.Process()
		_, merged := yang.ToEntry(ms.Modules["q"]).Dir["mark"]
		s.Count("foreign_includes_checked", 1)
		if len(errs) == 0 || merged {
			s.Violation(c, j.CaseID(c), "C13.includes", "include-of-a-submodule-of-another-module", fmt.Sprintf("load order %v: %d errors, the submodule's leaf in the tree of q: %v", p, len(errs), merged), fdesc, nil)
			return
		}
	}
}

func checkHeaders(j *job.Job, s *job.Sink, c int64, hs []hdr, imp hdr, importer string) {
	s.Current(c, hs)
	s.Count("header_sets", 1)
	s.Count("nontrivial", 1)
	outcomes := map[string]bool{} // what happened, per load order
	residual := map[string]bool{} // the same with the rejections explained below left out
	reported := map[string]bool{}
	bad := func(class, detail string, facts map[string]any) {
		if reported[class] {
			return
		}
		reported[class] = true
		switch {
		case j.Property == "C13":
		case j.Property == "C17" && (strings.HasPrefix(class, "path-") || strings.HasPrefix(class, "prefix-")):
			// C17 borrows this family for its lookups through imports that name a revision;
			// the revision table itself is C13's subject
		case j.Property == "C12" && strings.HasPrefix(class, "instmodule-"):
			// and C12 for attribution when several revisions of a module are loaded
		default:
			return
		}
		s.Violation(c, j.CaseID(c), j.Property+".revisions", class, detail, map[string]any{"headers": hs, "importer": importer}, facts)
	}
	best := map[string]hdr{}
	for _, h := range hs {
		if b, ok := best[h.Name]; !ok || h.latest() > b.latest() {
			best[h.Name] = h
		}
	}
	for _, p := range allPerms(len(hs)) {
		s.Count("load_orders", 1)
		ms := yang.NewModules()
		var rej, rejOther []string
		revisionedLoaded := map[string]bool{} // names of which a revisioned module has been offered
		for _, i := range p {
			var err error
			evs := hooklog.Collect(func() { err = ms.Parse(hs[i].text(), fmt.Sprintf("f%d.yang", i)) })
			// event-log check: an accepted load files the module exactly once, under its
			// name@latest-revision; a rejected load files nothing
			adds := 0
			for _, e := range evs {
				if e.Name == "modules.add" {
					adds++
					s.Count("modules_add_events", 1)
					full := hs[i].Name
					if hs[i].latest() != "" {
						full += "@" + hs[i].latest()
					}
					if e.KV["full"] != full {
						bad("trace-filed-under-wrong-name", fmt.Sprintf("module %d filed as %s, expected %s", hs[i].ID, e.KV["full"], full), nil)
					}
				}
			}
			if (err == nil) != (adds == 1) {
				bad("trace-add-count", fmt.Sprintf("load of module %d: error %v, %d table insertions", hs[i].ID, err, adds), nil)
			}
			if err != nil {
				rej = append(rej, fmt.Sprint(hs[i].ID))
				// One shape of rejection is a recorded finding: a module without
				// any revision that arrives after a revisioned module of the same
				// name. Everything else is reported under its own class.
				if hs[i].latest() == "" && revisionedLoaded[hs[i].Name] && strings.Contains(err.Error(), "duplicate module") {
					s.Count("unrevisioned_after_revisioned_rejections", 1)
				} else {
					rejOther = append(rejOther, fmt.Sprint(hs[i].ID))
				}
			}
			if hs[i].latest() != "" {
				revisionedLoaded[hs[i].Name] = true
			}
		}
		sort.Strings(rej)
		sort.Strings(rejOther)
		var keys []string
		for k, m := range ms.Modules {
			keys = append(keys, k+"="+m.Leaf[0].Name)
		}
		sort.Strings(keys)
		o := "rejected=[" + strings.Join(rej, ",") + "] table=" + strings.Join(keys, " ")
		outcomes[o] = true
		residual["rejected=["+strings.Join(rejOther, ",")+"] table="+strings.Join(keys, " ")] = true
		if len(rejOther) > 0 {
			bad("distinct-revision-rejected", fmt.Sprintf("load order %v: %s", p, o), nil)
			continue
		}
		if len(rej) > 0 {
			bad("unrevisioned-rejected-after-revisioned", fmt.Sprintf("load order %v: %s", p, o), nil)
		}
		// One set in three is then offered a text with two modules: a still newer revision of
		// the first name, and a module that is rejected. The load fails, and the tables must be
		// what they were: the bare name denotes what it denoted, nothing is filed under the
		// new full name.
		if c%3 == 0 {
			nm := hs[0].Name
			multi := fmt.Sprintf("module %s { namespace \"urn:%s\"; prefix p; revision 2099-01-01; leaf mark99 { type string; } identity idm; typedef tdm { type string; } }\nmodule zzbad { namespace \"urn:zzbad\"; prefix zb; frobnicate y; }\n", nm, nm)
			if err := ms.Parse(multi, "multi.yang"); err == nil {
				bad("rejected-text-accepted", fmt.Sprintf("load order %v: a text whose second module is rejected was accepted", p), nil)
			}
			if ms.Modules[nm+"@2099-01-01"] != nil || ms.Modules["zzbad"] != nil {
				bad("rejected-text-leaves-modules", fmt.Sprintf("load order %v: modules of a rejected text are in the table", p), nil)
			}
			s.Count("rejected_multi_module_texts", 1)
		}
		for _, h := range hs {
			full := h.Name
			if h.latest() != "" {
				full += "@" + h.latest()
			}
			// an unrevisioned module can only be reached through the bare name
			if h.latest() == "" && best[h.Name].ID != h.ID {
				continue
			}
			if m := ms.Modules[full]; m == nil || m.Leaf[0].Name != fmt.Sprintf("mark%d", h.ID) {
				bad("full-name-wrong", fmt.Sprintf("load order %v: %s does not hold module %d: %s", p, full, h.ID, o), nil)
			}
		}
		for nme, h := range best {
			if m := ms.Modules[nme]; m == nil || m.Leaf[0].Name != fmt.Sprintf("mark%d", h.ID) {
				bad("bare-name-not-latest", fmt.Sprintf("load order %v: %s", p, o), nil)
			}
		}
		// import resolution
		if err := ms.Parse(importer, "u.yang"); err == nil {
			if errs := ms.Process(); len(errs) == 0 {
				s.Count("imports_checked", 1)
				got := ms.Modules["u"].Import[0].Module
				want := best[imp.Name]
				if strings.Contains(importer, "revision-date") {
					want = imp
				}
				if got == nil || got.Leaf[0].Name != fmt.Sprintf("mark%d", want.ID) {
					bad("import-binds-wrong-revision", fmt.Sprintf("load order %v: %s", p, importer), nil)
				}
				// the prefix of that import must denote the same module wherever it is
				// resolved: by prefix lookup, and as the first step of a schema path
				u := ms.Modules["u"]
				if pm := yang.FindModuleByPrefix(u, "x"); pm == nil || len(pm.Leaf) == 0 || pm.Leaf[0].Name != fmt.Sprintf("mark%d", want.ID) {
					bad("prefix-denotes-wrong-revision", fmt.Sprintf("load order %v: %s: FindModuleByPrefix(u, x) is not module %d", p, importer, want.ID), nil)
				}
				// what the importer says through its prefix - an identity base, a type - is
				// looked up in the module the import denotes, not in another revision of it
				if got != nil && len(got.Identity) == 1 && strings.Contains(importer, "identity uy") {
					ue0 := yang.ToEntry(ms.Modules["u"])
					ul, ut := ue0.Dir["ul"], ue0.Dir["ut"]
					switch {
					case ul == nil || ul.Type == nil || ul.Type.IdentityBase != got.Identity[0]:
						bad("identity-binds-wrong-revision", fmt.Sprintf("load order %v: %s: the base of leaf ul is not the identity idm of module %d", p, importer, want.ID), nil)
					case len(got.Identity[0].Values) != 1 || got.Identity[0].Values[0].Name != "uy":
						bad("identity-binds-wrong-revision", fmt.Sprintf("load order %v: %s: idm of module %d lists %d derived identities, uy is derived from it", p, importer, want.ID, len(got.Identity[0].Values)), nil)
					case ut == nil || ut.Type == nil || ut.Type.Units != fmt.Sprintf("u%d", want.ID):
						bad("typedef-binds-wrong-revision", fmt.Sprintf("load order %v: %s: leaf ut has not the type tdm of module %d", p, importer, want.ID), nil)
					}
					for key, m := range ms.Modules {
						if key != "u" && m != got && len(m.Identity) == 1 && len(m.Identity[0].Values) != 0 {
							bad("identity-binds-wrong-revision", fmt.Sprintf("load order %v: %s: idm of %s lists derived identities, nothing is derived from it", p, importer, key), nil)
						}
					}
					s.Count("identity_and_typedef_bindings_checked", 1)
				}
				// every node of every loaded revision belongs to the module of that name,
				// however many revisions of it are loaded (C12)
				for key, m := range ms.Modules {
					if key == "u" {
						continue
					}
					me := yang.ToEntry(m)
					for _, e := range []*yang.Entry{me, me.Dir[m.Leaf[0].Name]} {
						s.Count("instantiating_module_queries", 1)
						if im, err := e.InstantiatingModule(); err != nil || im != m.Name {
							bad("instmodule-with-several-revisions", fmt.Sprintf("load order %v: InstantiatingModule of %s in %s = %q, %v", p, e.Name, key, im, err), nil)
						}
						if ns := e.Namespace(); ns == nil || ns.Name != m.Namespace.Name || !strings.HasPrefix(ns.Name, "urn:"+m.Name) {
							bad("instmodule-namespace", fmt.Sprintf("load order %v: Namespace of %s in %s", p, e.Name, key), nil)
						}
					}
				}
				ue := yang.ToEntry(u)
				for _, h := range hs {
					if h.Name != want.Name {
						continue
					}
					path := fmt.Sprintf("/x:mark%d", h.ID)
					found := ue.Find(path)
					s.Count("path_lookups_through_import", 1)
					switch {
					case h.ID == want.ID && (found == nil || yang.RootNode(found.Node) != got):
						bad("path-resolves-in-wrong-revision", fmt.Sprintf("load order %v: %s: Find(%s) from u does not return the leaf of module %d", p, importer, path, want.ID), nil)
					case h.ID != want.ID && found != nil:
						bad("path-resolves-in-wrong-revision", fmt.Sprintf("load order %v: %s: Find(%s) from u finds a node of module %d, which the import does not denote", p, importer, path, h.ID), nil)
					}
				}
			}
		}
	}
	join := func(m map[string]bool) string {
		var os []string
		for o := range m {
			os = append(os, o)
		}
		sort.Strings(os)
		return strings.Join(os, " | ")
	}
	switch {
	case len(residual) > 1:
		bad("load-order-dependent", join(outcomes), nil)
	case len(outcomes) > 1:
		// the orders differ only in the recorded shape of rejection
		bad("load-order-dependent-by-unrevisioned-rejection", join(outcomes), nil)
	}
}

// ---------- (b) file chooser ----------

func mod(name, marker, rev string) string {
	r := ""
	if rev != "" {
		r = "revision " + rev + ";"
	}
	return fmt.Sprintf("module %s { namespace \"urn:%s\"; prefix p; %s leaf %s { type string; } }", name, name, r, marker)
}

var candName = regexp.MustCompile(`^foo(@\d{4}-\d{2}-\d{2})?\.yang$`)

// Files: generated directory layouts. The worker's cwd is its own scratch directory.
func Files(j *job.Job, s *job.Sink) {
	start, _ := os.Getwd()
	defer os.Chdir(start)
	for c := j.Start; c < j.Start+j.Count; c++ {
		r := prng.For(j.Seed, "C13", "files", c)
		// the module looked for: foo, or (one layout in four) a name with a dot in it, which
		// is a legal module name and must not be taken for a file name with an extension
		base := "foo"
		if r.Intn(4) == 0 {
			base = []string{"acme.types", "foo.v2", "a.b.c"}[r.Intn(3)]
		}
		fooize := func(x string) string { return strings.ReplaceAll(x, "foo", base) }
		candName := regexp.MustCompile(`^` + regexp.QuoteMeta(base) + `(@\d{4}-\d{2}-\d{2})?\.yang$`)
		root, _ := os.MkdirTemp(start, "layout")
		dirs := []string{"cwd", "d1", "d2", "d3"}[:2+r.Intn(3)]
		type cand struct{ dir, file, marker string }
		var layout []map[string]string
		files := map[string][]cand{} // dir -> candidates for module "foo"
		mk := 0
		symlinks := 0
		recursive := map[string]string{} // search-path entries given as dir/...: where below dir the files are
		for _, d0 := range dirs {
			d := d0
			os.MkdirAll(filepath.Join(root, d), 0o755)
			if d0 != "cwd" && r.Intn(3) == 0 {
				// the entry is written dir/... and all files of this entry live in one
				// directory at some depth below it (so that "the first directory holding a
				// candidate" stays unambiguous); siblings hold nothing or near misses only
				sub := []string{"", "s1", "s1/s2", "a0", "zz/y/x"}[r.Intn(5)]
				recursive[d0] = sub
				d = filepath.Join(d0, sub)
				os.MkdirAll(filepath.Join(root, d), 0o755)
				os.MkdirAll(filepath.Join(root, d0, "empty"), 0o755)
				if r.Intn(2) == 0 {
					os.MkdirAll(filepath.Join(root, d0, "m0"), 0o755)
					os.WriteFile(filepath.Join(root, d0, "m0", "x"+base+".yang"), []byte(mod("x"+base, "near", "")), 0o644)
					os.WriteFile(filepath.Join(root, d0, "m0", base+".yang.orig"), []byte(mod(base, "near", "")), 0o644)
				}
			}
			add := func(fn, modname, rev string, isCand bool) {
				mk++
				marker := fmt.Sprintf("mk%d", mk)
				if r.Intn(4) == 0 {
					// the file is a symbolic link into a store outside the search path (how
					// package managers and build trees lay modules out); it is a candidate
					// like any other
					os.MkdirAll(filepath.Join(root, "store"), 0o755)
					real := filepath.Join(root, "store", fmt.Sprintf("blob%d", mk))
					os.WriteFile(real, []byte(mod(modname, marker, rev)), 0o644)
					os.Symlink(real, filepath.Join(root, d, fn))
					symlinks++
				} else {
					os.WriteFile(filepath.Join(root, d, fn), []byte(mod(modname, marker, rev)), 0o644)
				}
				layout = append(layout, map[string]string{"dir": d, "file": fn, "marker": marker})
				if isCand {
					files[d0] = append(files[d0], cand{d, fn, marker})
				}
			}
			if r.Intn(3) == 0 {
				add(base+".yang", base, "", true)
			}
			for q := r.Intn(3); q > 0; q-- {
				date := fmt.Sprintf("20%02d-%02d-%02d", 10+r.Intn(15), 1+r.Intn(12), 1+r.Intn(28))
				dup := false
				for _, x := range files[d0] {
					if x.file == base+"@"+date+".yang" {
						dup = true
					}
				}
				if !dup {
					add(base+"@"+date+".yang", base, date, true)
				}
			}
			// near misses
			for _, nm := range [][2]string{{"foobar@2030-01-01.yang", "foobar"}, {"foo-x@2030-01-01.yang", "foo-x"}, {"xfoo.yang", "xfoo"}, {"foo@2030-1-1.yang", "foo"}, {"foo@2030-01-01.yang.bak", "foo"}, {"foo.yang~", "foo"}, {"fo.yang", "fo"}, {"foo@20300101.yang", "foo"},
				// names that sort between the dated candidates of the directory
				{"foo@2015-6-15.yang", "foo"}, {"foo@2017-03-01.yang.orig", "foo"}, {"foo@2016-01-01", "foo"}, {"foo@2018-01-01.yang~", "foo"}, {"foo@2014-12-31T00.yang", "foo"}, {"foo@2019-01-01-draft.yang", "foo"}, {"foo@2012.yang", "foo"}} {
				if r.Intn(3) == 0 {
					add(fooize(nm[0]), fooize(nm[1]), "", false)
				}
			}
			hasExact := false
			for _, x := range files[d0] {
				if x.file == base+".yang" {
					hasExact = true
				}
			}
			// (a directory of that name may stand next to dated candidates: it is no file)
			if r.Intn(6) == 0 && !hasExact {
				os.MkdirAll(filepath.Join(root, d, base+".yang"), 0o755) // a directory named like the file
				layout = append(layout, map[string]string{"dir": d, "file": base + ".yang/", "marker": "(directory)"})
			}
		}
		// A second module, zzy, has a file in every directory of the search path: whatever the first fetch found
		// and wherever, the second one starts at the front of the search path again.
		dirOf := map[string]string{}
		for _, d0 := range dirs {
			d := d0
			if sub, ok := recursive[d0]; ok {
				d = filepath.Join(d0, sub)
			}
			dirOf[d0] = d
			if d0 == "cwd" {
				continue // (the current directory comes before the search path; the path is what is tested here)
			}
			os.WriteFile(filepath.Join(root, d, "zzy.yang"), []byte(mod("zzy", "zy-"+d0, "")), 0o644)
		}
		// expectation: first directory (cwd first) holding a candidate
		want := ""
		for _, d := range dirs {
			if len(files[d]) == 0 {
				continue
			}
			best := files[d][0]
			exact := false
			for _, x := range files[d] {
				if x.file == base+".yang" {
					best, exact = x, true
				}
			}
			if !exact {
				for _, x := range files[d] {
					if x.file > best.file {
						best = x
					}
				}
			}
			want = best.marker
			break
		}
		via := []string{"read", "import", "getmodule"}[r.Intn(3)]
		var spath []string
		for _, d := range dirs[1:] {
			if _, ok := recursive[d]; ok {
				spath = append(spath, d+"/...")
			} else {
				spath = append(spath, d)
			}
		}
		desc := map[string]any{"layout": layout, "search_path": spath, "entry_point": via}
		viol := func(class, detail string) {
			if j.Property != "C13" && !strings.HasPrefix(class, "position-") {
				return // C16 borrows this family for the file names in positions only
			}
			s.Violation(c, j.CaseID(c), j.Property+".files", class, detail, desc, nil)
		}
		s.Current(c, desc)
		s.Count("layouts", 1)
		s.Count("layout_files_that_are_symlinks", int64(symlinks))
		if len(layout) >= 3 {
			s.Count("nontrivial", 1)
		}
		os.Chdir(filepath.Join(root, "cwd"))
		ms := yang.NewModules()
		// One layout in four: before the search path is set up, a broken file is read from one
		// of its plain directories and rejected. That leaves no trace; the directory is put on
		// the path afterwards like the others and searched like them.
		if r.Intn(4) == 0 && len(dirs) > 1 {
			d := dirs[1+r.Intn(len(dirs)-1)]
			if _, rec := recursive[d]; !rec {
				broken := filepath.Join(root, d, "zzbroken.yang")
				os.WriteFile(broken, []byte("module zzbroken {\n  namespace \"urn:zzbroken\";\n  prefix zb;\n  container c {\n"), 0o644)
				if err := ms.Read(broken); err == nil {
					s.Violation(c, j.CaseID(c), j.Property+".files", "generator", "a broken file was accepted", nil, nil)
				}
				s.Count("layouts_with_a_rejected_read_first", 1)
			}
		}
		for _, d := range spath {
			ms.AddPath(filepath.Join(root, d))
		}
		s.Count("search_path_entries_recursive", int64(len(recursive)))
		var err error
		evs := hooklog.Collect(func() {
			switch via {
			case "read":
				err = ms.Read(base)
			case "getmodule":
				// the convenience entry point: read if absent, process, convert
				e, errs := ms.GetModule(base)
				if len(errs) > 0 {
					err = errs[0]
				} else if e == nil || e.Name != base {
					err = fmt.Errorf("GetModule returned %v without an error", e)
				}
			default:
				if err = ms.Parse("module imp { namespace \"urn:imp\"; prefix i; import "+base+" { prefix f; } }", "imp.yang"); err == nil {
					if errs := ms.Process(); len(errs) > 0 {
						err = errs[0]
					}
				}
			}
		})
		// the second fetch
		if rerr := ms.Read("zzy"); rerr != nil {
			viol("second-fetch-failed", rerr.Error())
		} else if m := ms.Modules["zzy"]; m == nil || len(m.Leaf) == 0 || m.Leaf[0].Name != "zy-"+dirs[1] {
			got := "nothing"
			if m != nil && len(m.Leaf) > 0 {
				got = m.Leaf[0].Name
			}
			viol("second-fetch-wrong-file", fmt.Sprintf("after the fetch of %s, zzy was taken from %s; %s holds zzy.yang and comes first in the search path", base, got, dirs[1]))
		}
		s.Count("second_fetches", 1)
		os.Chdir(start)
		// event-log check: which files were actually opened. Exactly the expected candidate,
		// once, and never a file whose name is not foo.yang or foo@YYYY-MM-DD.yang.
		var opened []string
		for _, e := range evs {
			if e.Name == "file.read" {
				opened = append(opened, e.KV["path"])
				s.Count("file_read_events", 1)
			}
		}
		wantFile := ""
		for _, l := range layout {
			if l["marker"] == want && want != "" {
				wantFile = l["file"]
			}
		}
		for _, o := range opened {
			if !candName.MatchString(filepath.Base(o)) {
				viol("trace-opened-a-foreign-file", fmt.Sprintf("opened %s while looking for module %s", o, base))
			}
		}
		switch {
		case want != "" && len(opened) != 1:
			viol("trace-file-reads", fmt.Sprintf("%d files opened (%v), expected exactly %s", len(opened), opened, wantFile))
		case want != "" && filepath.Base(opened[0]) != wantFile:
			viol("trace-wrong-file", fmt.Sprintf("opened %s, expected %s", opened[0], wantFile))
		case want == "" && len(opened) > 0:
			viol("trace-file-reads", fmt.Sprintf("opened %v though no directory holds a candidate", opened))
		}
		got := ""
		if m := ms.Modules[base]; m != nil && len(m.Leaf) > 0 {
			got = m.Leaf[0].Name
			// positions name the file that was read (C16): the module statement and the leaf
			if len(opened) == 1 {
				for _, st := range []*yang.Statement{m.Source, m.Leaf[0].Source} {
					s.Count("file_positions_checked", 1)
					if loc := st.Location(); !strings.HasPrefix(loc, opened[0]+":") {
						viol("position-names-another-file", fmt.Sprintf("statement %s reports %s, the text was read from %s", st.Keyword, loc, opened[0]))
					}
				}
			}
		}
		switch {
		case want == "" && got != "":
			viol("loaded-without-candidate", fmt.Sprintf("loaded %s though no directory holds a candidate", got))
		case want != "" && got != want:
			viol("wrong-file", fmt.Sprintf("loaded marker %q (err %v), expected %q", got, err, want))
		}
		for n := range ms.Modules {
			if !strings.HasPrefix(n, base) && n != "imp" && n != "zzy" || strings.HasPrefix(n, base+"bar") || strings.HasPrefix(n, base+"-x") {
				viol("differently-named-module", "loaded "+n)
			}
		}
		os.RemoveAll(root)
		if c%500 == 0 {
			s.Sample(1, desc)
		}
	}
}

// ---------- (c) include == inline ----------

func loadDump(mods []*schema.Mod) string {
	ms := yang.NewModules()
	for _, m := range mods {
		if err := ms.Parse(schema.Print(m), m.Name+".yang"); err != nil {
			return "LOAD-ERROR " + err.Error()
		}
	}
	var d string
	func() {
		defer func() {
			if rec := recover(); rec != nil {
				d = fmt.Sprint("PANIC ", rec)
			}
		}()
		d = dump.Set(ms, ms.Process(), false)
	}()
	var out []string
	keep := true
	for _, l := range strings.Split(d, "\n") {
		if strings.HasPrefix(l, "MODULE ") {
			keep = strings.Contains(l, "kind=module")
		}
		if keep {
			out = append(out, l)
		}
	}
	return strings.TrimSpace(strings.Join(out, "\n"))
}

// Split: a generated set without submodules is dumped, then every module is split at
// random into 1-3 submodules with nested includes and dumped again.
func Split(j *job.Job, s *job.Sink) {
	for c := j.Start; c < j.Start+j.Count; c++ {
		r := prng.For(j.Seed, "C13", "split", c)
		g := &schema.Gen{R: r, NoSubs: true, Typedefs: true}
		g.Build()
		// every module also gets a few identities, derived from earlier ones of the same
		// module (with or without its own prefix) and from those of the modules it imports
		nid := make([]int, len(g.Mods))
		idx := map[*schema.Mod]int{}
		for mi, m := range g.Mods {
			nid[mi] = 2 + r.Intn(4)
			idx[m] = mi
		}
		for mi, m := range g.Mods {
			for q := 0; q < nid[mi]; q++ {
				id := &schema.Ident{Name: fmt.Sprintf("zi%dx%d", mi, q)}
				for nb := r.Intn(3); nb > 0; nb-- {
					if q > 0 && r.Intn(2) == 0 {
						b := fmt.Sprintf("zi%dx%d", mi, r.Intn(q))
						if r.Intn(2) == 0 {
							b = m.Prefix + ":" + b
						}
						id.Bases = append(id.Bases, b)
					} else if len(m.Imports) > 0 {
						im := m.Imports[r.Intn(len(m.Imports))]
						if oi, ok := idx[im.Mod]; ok && oi < mi {
							id.Bases = append(id.Bases, fmt.Sprintf("%s:zi%dx%d", im.Prefix, oi, r.Intn(nid[oi])))
						}
					}
				}
				// (no base twice: not what this family is about)
				seenB := map[string]bool{}
				var bs []string
				for _, b := range id.Bases {
					k := b
					if i := strings.Index(b, ":"); i >= 0 && b[:i] == m.Prefix {
						k = b[i+1:]
					}
					if !seenB[k] {
						seenB[k] = true
						bs = append(bs, b)
					}
				}
				id.Bases = bs
				m.Idents = append(m.Idents, id)
			}
		}
		var unsplit []map[string]string
		for _, m := range g.Mods {
			unsplit = append(unsplit, map[string]string{"name": m.Name + ".yang", "text": schema.Print(m)})
		}
		s.Current(c, unsplit)
		s.Count("modules_sets", 1)
		before := loadDump(g.Mods)
		if strings.HasPrefix(before, "ERROR") || strings.HasPrefix(before, "LOAD-ERROR") || strings.HasPrefix(before, "PANIC") {
			s.Count("unsplit_not_clean", 1)
			continue
		}
		var all []*schema.Mod
		moved := 0
		for _, m := range g.Mods {
			n0 := schema.NestedOnlyIncludes
			subs := schema.SplitOpt(r, m, 1+r.Intn(5), len(g.Mods) == 1)
			s.Count("includes_left_to_a_submodule", int64(schema.NestedOnlyIncludes-n0))
			for _, sm := range subs {
				moved += len(sm.Body.Items) + len(sm.Body.Typedefs) + len(sm.Body.Groupings)
			}
			all = append(all, subs...)
			all = append(all, m)
		}
		var split []map[string]string
		for _, m := range all {
			split = append(split, map[string]string{"name": m.Name + ".yang", "text": schema.Print(m)})
		}
		s.Current(c, split)
		s.Count("splits_compared", 1)
		if moved >= 2 {
			s.Count("nontrivial", 1)
		}
		after := loadDump(all)
		if before != after {
			a, b := strings.Split(before, "\n"), strings.Split(after, "\n")
			la, lb := "", ""
			for i := 0; i < len(a) && i < len(b); i++ {
				if a[i] != b[i] {
					la, lb = a[i], b[i]
					break
				}
			}
			if len(la) > 180 {
				la = la[:180]
			}
			if len(lb) > 180 {
				lb = lb[:180]
			}
			class := "split-differs"
			if strings.HasPrefix(after, "ERROR") {
				class = "split-reports-error"
			}
			s.Violation(c, j.CaseID(c), "C13.split", class, fmt.Sprintf("unsplit %q, split %q", la, lb), map[string]any{"unsplit": unsplit, "split": split}, map[string]any{"first_split_line": lb})
		}
		if c%1000 == 0 {
			s.Sample(1, split)
		}
		if c%400 == 0 {
			twoRevisionsOneSubmodule(j, s, c)
		}
	}
}

// twoRevisionsOneSubmodule: two revisions of a module are loaded together and both include
// the same submodule (directly, or one level further down). Each of the two module trees
// must have the submodule's nodes, exactly as if they were written in that revision.
func twoRevisionsOneSubmodule(j *job.Job, s *job.Sink, c int64) {
	r := prng.For(j.Seed, "C13", "tworevs", c)
	nested := r.Intn(2) == 0
	inc, subinc := "include s;", ""
	if nested {
		inc, subinc = "include s; include t;", "include t; "
	}
	fs := []map[string]string{
		{"name": "m@2019-01-01.yang", "text": "module m { namespace \"urn:m\"; prefix m; " + inc + " revision 2019-01-01; leaf a { type string; } }"},
		{"name": "m@2020-01-01.yang", "text": "module m { namespace \"urn:m\"; prefix m; " + inc + " revision 2020-01-01; leaf a { type string; } leaf b { type string; } }"},
		{"name": "s.yang", "text": "submodule s { belongs-to m { prefix m; } " + subinc + "leaf fromsub { type string; } }"},
	}
	if nested {
		fs = append(fs, map[string]string{"name": "t.yang", "text": "submodule t { belongs-to m { prefix m; } leaf fromnested { type string; } }"})
	}
	r.Shuffle(len(fs), func(a, b int) { fs[a], fs[b] = fs[b], fs[a] })
	s.Count("two_revision_sets_sharing_a_submodule", 1)
	ms := yang.NewModules()
	for _, f := range fs {
		if err := ms.Parse(f["text"], f["name"]); err != nil {
			s.Violation(c, j.CaseID(c), "C13.split", "split-reports-error", err.Error(), fs, nil)
			return
		}
	}
	if errs := ms.Process(); len(errs) > 0 {
		s.Violation(c, j.CaseID(c), "C13.split", "split-reports-error", errs[0].Error(), fs, nil)
		return
	}
	// lookups that start at a node written in the submodule and name the module by its
	// belongs-to prefix stay in the tree the node is in (C17): forty times, since which
	// module a submodule "belongs to" must not be a matter of map order
	for _, k := range []string{"m@2019-01-01", "m@2020-01-01"} {
		root := yang.ToEntry(ms.Modules[k])
		start := root.Dir["fromsub"]
		if start == nil {
			continue
		}
		for q := 0; q < 40; q++ {
			s.Count("lookups_from_submodule_nodes", 1)
			if got := start.Find("/m:a"); got != root.Dir["a"] {
				where := "nothing"
				if got != nil {
					where = "a node of the tree of " + yang.RootNode(got.Node).FullName()
				}
				s.Violation(c, j.CaseID(c), j.Property+".split", "path-leaves-the-tree-of-the-start-node", fmt.Sprintf("Find(/m:a) from /%s/fromsub (written in submodule s) returned %s", k, where), fs, nil)
				return
			}
		}
	}
	want := []string{"fromsub"}
	if nested {
		want = append(want, "fromnested")
	}
	var lacking []string
	for _, k := range []string{"m@2019-01-01", "m@2020-01-01"} {
		mod := ms.Modules[k]
		if mod == nil {
			s.Violation(c, j.CaseID(c), "C13.split", "module-missing", k, fs, nil)
			return
		}
		e := yang.ToEntry(mod)
		for _, w := range want {
			if e.Dir[w] == nil {
				lacking = append(lacking, k+" lacks "+w)
			}
		}
	}
	if len(lacking) > 0 {
		both := 0
		for _, l := range lacking {
			if strings.HasPrefix(l, "m@2019") {
				both |= 1
			} else {
				both |= 2
			}
		}
		s.Violation(c, j.CaseID(c), "C13.split", "revision-lacks-the-nodes-of-a-shared-submodule", strings.Join(lacking, "; "), fs, map[string]any{"two_revisions_include_same_submodule": true, "only_one_revision_affected": both != 3})
	}
}
