// Package w11 is the workload and monitor of C11 (identity closure).
package w11

import (
	"fmt"
	"sort"
	"strings"

	"github.com/openconfig/goyang/pkg/yang"
	"verif/internal/job"
	"verif/internal/prng"
)

type ident struct {
	mod   *mod // owning module (family)
	file  *mod // defining file
	name  string
	bases []*ident
	bq    []string
}

type mod struct {
	sub     bool
	name    string
	prefix  string
	owner   *mod
	imports map[*mod]string // module -> prefix
	subs    []*mod
	ids     []*ident
	refs    []*ident // identityref leaves
	refq    []string
}

func (m *mod) module() *mod {
	if m.sub {
		return m.owner
	}
	return m
}

func (m *mod) text() string {
	var b strings.Builder
	if m.sub {
		fmt.Fprintf(&b, "submodule %s { belongs-to %s { prefix %s; }\n", m.name, m.owner.name, m.prefix)
	} else {
		fmt.Fprintf(&b, "module %s { yang-version 1.1; namespace \"urn:%s\"; prefix %s;\n", m.name, m.name, m.prefix)
	}
	var ims []*mod
	for im := range m.imports {
		ims = append(ims, im)
	}
	sort.Slice(ims, func(i, j int) bool { return ims[i].name < ims[j].name })
	for _, im := range ims {
		fmt.Fprintf(&b, "  import %s { prefix %s; }\n", im.name, m.imports[im])
	}
	for _, s := range m.subs {
		fmt.Fprintf(&b, "  include %s;\n", s.name)
	}
	for _, id := range m.ids {
		fmt.Fprintf(&b, "  identity %s {", id.name)
		for _, q := range id.bq {
			fmt.Fprintf(&b, " base %s;", q)
		}
		b.WriteString(" }\n")
	}
	for i, q := range m.refq {
		switch i % 3 {
		case 1: // through a typedef
			fmt.Fprintf(&b, "  typedef tr%s%d { type identityref { base %s; } }\n  leaf r%s%d { type tr%s%d; }\n", m.name, i, q, m.name, i, m.name, i)
		case 2: // through a chain of two typedefs, the leaf inside a container
			fmt.Fprintf(&b, "  typedef tr%s%d { type identityref { base %s; } }\n  typedef ts%s%d { type tr%s%d; }\n  leaf r%s%d { type ts%s%d; }\n", m.name, i, q, m.name, i, m.name, i, m.name, i, m.name, i)
		default:
			fmt.Fprintf(&b, "  leaf r%s%d { type identityref { base %s; } }\n", m.name, i, q)
		}
	}
	// all of them once more as the members of one union (distinct bases are distinct
	// members, however alike their names and prefixes look)
	if len(m.refq) >= 2 {
		fmt.Fprintf(&b, "  leaf u%s { type union {", m.name)
		seen := map[*ident]bool{}
		for i, q := range m.refq {
			if !seen[m.refs[i]] {
				seen[m.refs[i]] = true
				fmt.Fprintf(&b, " type identityref { base %s; }", q)
			}
		}
		b.WriteString(" } }\n")
	}
	b.WriteString("}\n")
	return b.String()
}

func ownerName(n yang.Node) string {
	rn := yang.RootNode(n)
	if rn.BelongsTo != nil {
		return rn.BelongsTo.Name
	}
	return rn.Name
}

// pinned is a fixed family of sets for bases that reach an identity through an import that
// names a revision: module a in two or three revisions, each with identity root (the newest
// also with a derived identity of its own); importers that pin one revision, pin none, or
// (YANG 1.1) import two revisions under two prefixes. Every derived identity is listed under
// the root of the revision its base statement denotes and under no other, and an identityref
// points at that root. All load orders.
func pinned(j *job.Job, s *job.Sink, c int64) {
	r := prng.For(j.Seed, "C11", "pinned", c)
	revs := []string{"2019-01-01", "2020-01-01", "2021-01-01"}[:2+r.Intn(2)]
	type imp struct{ name, body string }
	var texts [][2]string
	want := map[string][]string{} // revision -> names derived from its root
	for k, rv := range revs {
		extra := ""
		if k == len(revs)-1 {
			extra = " identity newest { base root; }"
			want[rv] = append(want[rv], "newest")
		}
		texts = append(texts, [2]string{"a@" + rv + ".yang", fmt.Sprintf("module a { yang-version 1.1; namespace \"urn:a\"; prefix a; revision %s; identity root;%s }", rv, extra)})
	}
	latest := revs[len(revs)-1]
	// One set in four is on the error side: the oldest revision (which also includes a
	// submodule, so that it has include statements) is pinned by an importer whose base names
	// the identity that only the newest revision defines. That base is undefined.
	danglingPinned := r.Intn(4) == 0
	if danglingPinned {
		texts[0][1] = strings.Replace(texts[0][1], "identity root;", "include asub; identity root;", 1)
		texts = append(texts, [2]string{"asub.yang", "submodule asub { yang-version 1.1; belongs-to a { prefix a; } identity insub { base root; } }"})
		texts = append(texts, [2]string{"zbad.yang", fmt.Sprintf("module zbad { yang-version 1.1; namespace \"urn:zbad\"; prefix zbad; import a { prefix old; revision-date %s; } identity y { base old:newest; } }", revs[0])})
	}
	refWant := map[string]string{} // leaf name -> revision its identityref must point at
	nimp := 1 + r.Intn(3)
	for i := 0; i < nimp; i++ {
		name := fmt.Sprintf("u%d", i)
		switch r.Intn(3) {
		case 0: // pins one revision
			rv := revs[r.Intn(len(revs))]
			texts = append(texts, [2]string{name + ".yang", fmt.Sprintf("module %s { yang-version 1.1; namespace \"urn:%s\"; prefix %s; import a { prefix a; revision-date %s; } identity d%s { base a:root; } leaf r%s { type identityref { base a:root; } } }", name, name, name, rv, name, name)})
			want[rv] = append(want[rv], "d"+name)
			refWant["r"+name] = rv
		case 1: // pins none: the latest
			texts = append(texts, [2]string{name + ".yang", fmt.Sprintf("module %s { yang-version 1.1; namespace \"urn:%s\"; prefix %s; import a { prefix a; } identity d%s { base a:root; } typedef t%s { type identityref { base a:root; } } leaf r%s { type t%s; } }", name, name, name, name, name, name, name)})
			want[latest] = append(want[latest], "d"+name)
			refWant["r"+name] = latest
		default: // two revisions under two prefixes
			r1, r2 := revs[0], revs[len(revs)-1]
			texts = append(texts, [2]string{name + ".yang", fmt.Sprintf("module %s { yang-version 1.1; namespace \"urn:%s\"; prefix %s; import a { prefix ao; revision-date %s; } import a { prefix an; revision-date %s; } identity do%s { base ao:root; } identity dn%s { base an:root; } identity both%s { base ao:root; base an:root; } leaf r%s { type identityref { base ao:root; } } }", name, name, name, r1, r2, name, name, name, name)})
			want[r1] = append(want[r1], "do"+name, "both"+name)
			want[r2] = append(want[r2], "dn"+name, "both"+name)
			refWant["r"+name] = r1
		}
	}
	cs := []map[string]string{}
	for _, t := range texts {
		cs = append(cs, map[string]string{"name": t[0], "text": t[1]})
	}
	s.Current(c, cs)
	s.Count("graphs", 1)
	s.Count("pinned_revision_sets", 1)
	s.Count("nontrivial", 1)
	for rep := 0; rep < 4; rep++ {
		perm := r.Perm(len(texts))
		ms := yang.NewModules()
		ok := true
		for _, i := range perm {
			if err := ms.Parse(texts[i][1], texts[i][0]); err != nil {
				s.Violation(c, j.CaseID(c), "C11.closure", "parse-error", err.Error(), cs, nil)
				ok = false
				break
			}
		}
		if !ok {
			return
		}
		errs := ms.Process()
		if danglingPinned {
			s.Count("error_side_graphs", 1)
			if len(errs) == 0 {
				s.Violation(c, j.CaseID(c), "C11.closure", "unreported:dangling-prefixed-base", "the base old:newest is not defined in the revision of a that the import names, and Process reported nothing", cs, nil)
				return
			}
			continue
		}
		if len(errs) > 0 {
			s.Violation(c, j.CaseID(c), "C11.closure", "spurious-error", fmt.Sprintf("revision-pinned bases: %v", errs[0]), cs, nil)
			return
		}
		roots := map[string]*yang.Identity{}
		for _, rv := range revs {
			m := ms.Modules["a@"+rv]
			if m == nil || len(m.Identity) == 0 {
				s.Violation(c, j.CaseID(c), "C11.closure", "identity-missing", "a@"+rv+":root", cs, nil)
				return
			}
			roots[rv] = m.Identity[0]
			var got []string
			for _, v := range m.Identity[0].Values {
				got = append(got, v.Name)
			}
			w := append([]string{}, want[rv]...)
			sort.Strings(got)
			sort.Strings(w)
			s.Count("identity_checks", 1)
			if strings.Join(got, " ") != strings.Join(w, " ") {
				s.Violation(c, j.CaseID(c), "C11.closure", "closure", fmt.Sprintf("a@%s:root lists %v, its derivations through the imports that denote this revision are %v", rv, got, w), cs, nil)
				return
			}
		}
		for leaf, rv := range refWant {
			e := yang.ToEntry(ms.Modules["u"+leaf[2:]]).Dir[leaf]
			s.Count("identityref_checks", 1)
			if e == nil || e.Type == nil || e.Type.IdentityBase != roots[rv] {
				s.Violation(c, j.CaseID(c), "C11.closure", "identityref-wrong-object", fmt.Sprintf("leaf %s does not point at the identity root of a@%s, which its import denotes", leaf, rv), cs, nil)
				return
			}
		}
	}
}

// Run generates identity DAGs over several modules and submodules, loads each in
// several shuffled orders and compares every identity's Values with the graph closure.
func Run(j *job.Job, s *job.Sink) {
	reps := 8
	if j.Tier == "thorough" {
		reps = 24
	}
	for c := j.Start; c < j.Start+j.Count; c++ {
		if c%25 == 7 {
			pinned(j, s, c) // one case in 25 is a set of the revision-pinned family
			continue
		}
		r := prng.For(j.Seed, "C11", j.Family, c)
		var files []*mod
		var mods []*mod
		var all []*ident
		namePool := []string{"a", "b", "c", "d", "e", "f", "g", "h"}
		if c%3 == 1 {
			// names that differ only in the case of their letters are different names
			namePool = []string{"a", "A", "b", "B", "ab", "aB", "Ab", "AB"}
		}
		if c%200 == 7 {
			// a long derivation chain (130-500 identities, spread over two modules): every
			// identity lists exactly the ones below it, however deep that is
			n := 130 + r.Intn(371)
			cut := 1 + r.Intn(n-1)
			var a, b strings.Builder
			a.WriteString("module chaina { yang-version 1.1; namespace \"urn:chaina\"; prefix ca;\n")
			b.WriteString("module chainb { yang-version 1.1; namespace \"urn:chainb\"; prefix cb; import chaina { prefix ca; }\n")
			for k := 0; k < n; k++ {
				w, pfx := &a, ""
				if k >= cut {
					w = &b
					if k == cut {
						pfx = "ca:"
					}
				}
				if k == 0 {
					fmt.Fprintf(w, "  identity ID%04d;\n", k)
				} else {
					fmt.Fprintf(w, "  identity ID%04d { base %sID%04d; }\n", k, pfx, k-1)
				}
			}
			a.WriteString("  leaf top { type identityref { base ID0000; } }\n}\n")
			b.WriteString("}\n")
			cs := []map[string]string{{"name": "chaina.yang", "text": a.String()[:min(len(a.String()), 400)] + "..."}, {"name": "chainb.yang", "text": "(continues the chain)"}, {"name": "length", "text": fmt.Sprint(n)}}
			s.Current(c, cs)
			s.Count("graphs", 1)
			s.Count("long_chains", 1)
			s.Count("nontrivial", 1)
			for rep := 0; rep < 2; rep++ {
				ms := yang.NewModules()
				texts := []struct{ n, t string }{{"chaina.yang", a.String()}, {"chainb.yang", b.String()}}
				if rep == 1 {
					texts[0], texts[1] = texts[1], texts[0]
				}
				ok := true
				for _, t := range texts {
					if err := ms.Parse(t.t, t.n); err != nil {
						ok = false
					}
				}
				if errs := ms.Process(); !ok || len(errs) > 0 {
					s.Violation(c, j.CaseID(c), "C11.closure", "spurious-error", fmt.Sprintf("chain of %d identities: %v", n, errs), cs, nil)
					break
				}
				wrong := ""
				for _, mn := range []string{"chaina", "chainb"} {
					for _, id := range yang.ToEntry(ms.Modules[mn]).Identities {
						var k int
						fmt.Sscanf(id.Name, "ID%d", &k)
						s.Count("identity_checks", 1)
						if len(id.Values) != n-1-k && wrong == "" {
							wrong = fmt.Sprintf("%s lists %d derived identities, the chain below it has %d", id.Name, len(id.Values), n-1-k)
						}
					}
				}
				if top := yang.ToEntry(ms.Modules["chaina"]).Dir["top"]; top == nil || top.Type == nil || top.Type.IdentityBase == nil || len(top.Type.IdentityBase.Values) != n-1 {
					wrong = "the identityref on the top of the chain does not see all " + fmt.Sprint(n-1) + " derived identities"
				}
				if wrong != "" {
					s.Violation(c, j.CaseID(c), "C11.closure", "closure", fmt.Sprintf("chain of %d identities: %s", n, wrong), cs, nil)
					break
				}
			}
			continue
		}
		nm := 1 + r.Intn(4)
		nameOf := r.Perm(nm)
		for i := 0; i < nm; i++ {
			// module names are drawn so that name order and dependency order are unrelated
			// (whatever sorts or iterates by name must not depend on "importers come later")
			m := &mod{name: fmt.Sprintf("m%d", nameOf[i]), prefix: fmt.Sprintf("p%d", i), imports: map[*mod]string{}}
			if r.Intn(3) == 0 {
				m.prefix = "same" // several modules may declare the same prefix for themselves
			}
			// import prefixes are drawn from a small pool (unique within one file only), so
			// that a module and its submodules, or two modules, bind one prefix to
			// different modules
			impPrefix := func(f *mod, unique string) string {
				// a submodule whose belongs-to prefix is not the prefix of its module may use
				// that very prefix for an import: in the submodule it denotes the imported
				// module, in the module's own text the module
				if f.sub && f.owner != nil && f.owner.prefix != f.prefix && r.Intn(3) == 0 {
					taken := false
					for _, p := range f.imports {
						taken = taken || p == f.owner.prefix
					}
					if !taken {
						return f.owner.prefix
					}
				}
				if r.Intn(2) == 0 {
					q := fmt.Sprintf("q%d", r.Intn(3))
					taken := q == f.prefix
					for _, p := range f.imports {
						taken = taken || p == q
					}
					if !taken {
						return q
					}
				}
				return unique
			}
			for _, e := range mods {
				if r.Intn(2) == 0 {
					m.imports[e] = impPrefix(m, fmt.Sprintf("i%d%s", i, e.name))
				}
			}
			ns := r.Intn(3)
			for k := 0; k < ns; k++ {
				sm := &mod{sub: true, name: fmt.Sprintf("s%d_%d", i, k), prefix: m.prefix, owner: m, imports: map[*mod]string{}}
				if r.Intn(2) == 0 {
					sm.prefix = fmt.Sprintf("bp%d_%d", i, k)
				}
				for _, e := range mods {
					if r.Intn(2) == 0 {
						sm.imports[e] = impPrefix(sm, fmt.Sprintf("si%d%d%s", i, k, e.name))
					}
				}
				m.subs = append(m.subs, sm)
			}
			fam := append([]*mod{m}, m.subs...)
			used := map[string]bool{}
			for _, f := range fam {
				k := r.Intn(5)
				for q := 0; q < k; q++ {
					nmx := namePool[r.Intn(len(namePool))]
					if used[nmx] {
						continue
					}
					used[nmx] = true
					id := &ident{mod: m, file: f, name: nmx}
					nb := r.Intn(4)
					for b := 0; b < nb && len(all) > 0; b++ {
						cand := all[r.Intn(len(all))]
						q := ""
						if cand.mod == m {
							q = cand.name
							if r.Intn(2) == 0 {
								q = f.prefix + ":" + cand.name
							}
						} else if p, ok := f.imports[cand.mod]; ok {
							q = p + ":" + cand.name
						} else {
							continue
						}
						dup := false
						for _, x := range id.bases {
							if x == cand {
								dup = true
							}
						}
						if dup {
							continue
						}
						id.bases = append(id.bases, cand)
						id.bq = append(id.bq, q)
						// now and then the same base is named a second time in its other spelling
						// (with and without the prefix of the file): one base, listed once
						if cand.mod == m && r.Intn(5) == 0 {
							alt := f.prefix + ":" + cand.name
							if q == alt {
								alt = cand.name
							}
							id.bq = append(id.bq, alt)
						}
					}
					f.ids = append(f.ids, id)
					all = append(all, id)
				}
			}
			for q := r.Intn(3); q > 0 && len(all) > 0; q-- {
				cand := all[r.Intn(len(all))]
				if cand.mod == m {
					m.refs = append(m.refs, cand)
					m.refq = append(m.refq, cand.name)
				} else if p, ok := m.imports[cand.mod]; ok {
					m.refs = append(m.refs, cand)
					m.refq = append(m.refq, p+":"+cand.name)
				}
			}
			mods = append(mods, m)
			files = append(files, fam...)
		}
		// Error side, one graph in six: a derivation cycle (an identity gets an extra base
		// that is itself or one of its own descendants in the same module family, so the
		// name is visible without a new import) or a base that nothing defines. Process
		// must report it, whatever else is in the set.
		wantErr := ""
		if r.Intn(6) == 0 && len(all) > 0 {
			switch r.Intn(4) {
			case 0, 1:
				kidsNow := map[*ident][]*ident{}
				for _, id := range all {
					for _, b := range id.bases {
						kidsNow[b] = append(kidsNow[b], id)
					}
				}
				a := all[r.Intn(len(all))]
				// candidates: a itself and its descendants in a's own module family
				cands := []*ident{a}
				seen := map[*ident]bool{a: true}
				for q := []*ident{a}; len(q) > 0; q = q[1:] {
					for _, k := range kidsNow[q[0]] {
						if !seen[k] {
							seen[k] = true
							q = append(q, k)
							if k.mod == a.mod {
								cands = append(cands, k)
							}
						}
					}
				}
				x := cands[r.Intn(len(cands))]
				a.bq = append(a.bq, x.name)
				wantErr = "cycle"
			case 2:
				a := all[r.Intn(len(all))]
				// first, last or somewhere between the bases that are fine
				at := r.Intn(len(a.bq) + 1)
				a.bq = append(a.bq[:at], append([]string{"nosuchidentity"}, a.bq[at:]...)...)
				wantErr = "dangling-base"
			default:
				a := all[r.Intn(len(all))]
				q := "zzq:nosuch"
				for _, p := range a.file.imports {
					q = p + ":nosuchidentity"
				}
				at := r.Intn(len(a.bq) + 1)
				a.bq = append(a.bq[:at], append([]string{q}, a.bq[at:]...)...)
				wantErr = "dangling-prefixed-base"
			}
		}
		var cs []map[string]string
		for _, f := range files {
			cs = append(cs, map[string]string{"name": f.name + ".yang", "text": f.text()})
		}
		s.Current(c, cs)
		s.Count("graphs", 1)
		if wantErr != "" {
			s.Count("error_side_graphs", 1)
			s.Count("error_side:"+wantErr, 1)
			for rep := 0; rep < 3; rep++ {
				perm := r.Perm(len(files))
				func() {
					defer func() {
						if rec := recover(); rec != nil {
							s.Violation(c, j.CaseID(c), "C11.closure", "panic", fmt.Sprint(rec), cs, nil)
						}
					}()
					ms := yang.NewModules()
					for k, i := range perm {
						if err := ms.Parse(files[i].text(), files[i].name+".yang"); err != nil {
							return
						}
						// (the third repetition has a processing run after every load but
						// the last: what such a run saw of the half-loaded set must not
						// change what the run on the complete set reports)
						if rep == 2 && k < len(perm)-1 {
							ms.Process()
						}
					}
					if rep == 1 {
						ms.Process() // the second repetition is processed twice
					}
					if errs := ms.Process(); len(errs) == 0 {
						s.Violation(c, j.CaseID(c), "C11.closure", "unreported:"+wantErr, "Process reported no error for a graph with a "+wantErr, cs, nil)
					}
				}()
			}
			continue
		}
		kids := map[*ident][]*ident{}
		for _, id := range all {
			for _, b := range id.bases {
				kids[b] = append(kids[b], id)
			}
		}
		desc := func(id *ident) map[string]bool {
			out := map[string]bool{}
			var walk func(x *ident)
			walk = func(x *ident) {
				for _, k := range kids[x] {
					key := k.mod.name + ":" + k.name
					if !out[key] {
						out[key] = true
						walk(k)
					}
				}
			}
			walk(id)
			return out
		}
		sameName := false
		seenNames := map[string]string{}
		deep := false
		for _, id := range all {
			if o, ok := seenNames[id.name]; ok && o != id.mod.name {
				sameName = true
			}
			seenNames[id.name] = id.mod.name
			if len(desc(id)) > len(kids[id]) {
				deep = true
			}
		}
		if sameName || deep {
			s.Count("nontrivial", 1)
		}
		orders := map[string]string{}
		reported := map[string]bool{}
		bad := func(class, f string, a ...any) {
			if reported[class] {
				return
			}
			reported[class] = true
			s.Violation(c, j.CaseID(c), "C11.closure", class, fmt.Sprintf(f, a...), cs, map[string]any{"equal_names_in_different_modules": sameName})
		}
		for rep := 0; rep < reps; rep++ {
			perm := r.Perm(len(files))
			var libErr string
			func() {
				defer func() {
					if rec := recover(); rec != nil {
						bad("panic", "%v", rec)
						libErr = "panic"
					}
				}()
				ms := yang.NewModules()
				// One repetition in six has a module arrive twice: first as an older
				// revision (with one more identity, derived from its first one), then,
				// after a processing run has bound everything to that, as the newer
				// revision that the model describes. All bases and identityrefs must move.
				var late *mod
				if rep%6 == 5 {
					for _, f := range files {
						if !f.sub && len(f.subs) == 0 {
							late = f
							break
						}
					}
				}
				withRev := func(t, date, extra string) string {
					t = strings.Replace(t, ";\n", ";\n  revision "+date+";\n", 1)
					k := strings.LastIndex(t, "}")
					return t[:k] + extra + t[k:]
				}
				for k, i := range perm {
					txt := files[i].text()
					if files[i] == late {
						extra := ""
						if len(late.ids) > 0 {
							extra = "  identity ZZOLDONLY { base " + late.ids[0].name + "; }\n"
						}
						txt = withRev(txt, "2019-01-01", extra)
					}
					if err := ms.Parse(txt, files[i].name+".yang"); err != nil {
						bad("parse-error", "%v", err)
						libErr = "parse"
						return
					}
					// every third repetition has a processing run after each load (on a
					// half-loaded set it reports missing modules and bases, rightly); every
					// third is processed twice. The run on the complete set is judged.
					if rep%3 == 2 && k < len(perm)-1 {
						ms.Process()
						s.Count("intermediate_process_runs", 1)
					}
				}
				if rep%3 == 1 {
					ms.Process()
				}
				if late != nil {
					ms.Process()
					if err := ms.Parse(withRev(late.text(), "2020-02-02", ""), late.name+"@2020-02-02.yang"); err != nil {
						bad("parse-error", "%v", err)
						libErr = "parse"
						return
					}
					s.Count("loads_with_a_late_newer_revision", 1)
				}
				if errs := ms.Process(); len(errs) > 0 {
					bad("spurious-error", "%v", errs[0])
					libErr = "process"
					return
				}
				s.Count("loads", 1)
				// the identity object that each name denotes: the one of the latest revision
				// of its module (the bare name), wherever in the module's files it stands
				objOf := map[string]*yang.Identity{}
				for _, m := range mods {
					for _, id := range yang.ToEntry(ms.Modules[m.name]).Identities {
						objOf[m.name+":"+id.Name] = id
					}
				}
				for _, m := range mods {
					e := yang.ToEntry(ms.Modules[m.name])
					libIDs := map[string]*yang.Identity{}
					for _, id := range e.Identities {
						libIDs[id.Name] = id
					}
					for _, sm := range m.subs {
						for _, id := range ms.SubModules[sm.name].Identity {
							libIDs[id.Name] = id
						}
					}
					for _, f := range append([]*mod{m}, m.subs...) {
						for _, id := range f.ids {
							li := libIDs[id.name]
							if li == nil {
								bad("identity-missing", "%s:%s", m.name, id.name)
								continue
							}
							want := desc(id)
							if late != nil && m != late {
								// the older revision of the late module is loaded too: its identities
								// derive from what their base statements name like anybody's
								w2 := map[string]bool{}
								for k := range want {
									w2[k] = true
									if strings.HasPrefix(k, late.name+":") {
										w2[k+"@old"] = true
										if len(late.ids) > 0 && k == late.name+":"+late.ids[0].name {
											w2[late.name+":ZZOLDONLY@old"] = true
										}
									}
								}
								want = w2
							}
							got := map[string]bool{}
							var order []string
							for _, v := range li.Values {
								key := ownerName(v) + ":" + v.Name
								if rn := yang.RootNode(v); late != nil && rn != nil && rn.Name == late.name && rn.Current() == "2019-01-01" {
									key += "@old"
								}
								if got[key] {
									bad("duplicate-value", "%s:%s lists %s twice", m.name, id.name, key)
								}
								got[key] = true
								order = append(order, key)
							}
							s.Count("identity_checks", 1)
							same := len(got) == len(want)
							for k := range want {
								if !got[k] {
									same = false
								}
							}
							if !same {
								var w []string
								for k := range want {
									w = append(w, k)
								}
								sort.Strings(w)
								bad("closure", "%s:%s lists %v, closure is %v", m.name, id.name, order, w)
							}
							key := m.name + ":" + id.name
							o := strings.Join(order, " ")
							if late != nil {
								continue // (a list with the older revision's identities in it is not compared with the others)
							}
							if prev, seen := orders[key]; seen && prev != o {
								bad("order-unstable", "%s lists %q in one load and %q in another", key, prev, o)
							}
							orders[key] = o
						}
					}
					if len(m.refs) >= 2 {
						var wantU []*ident
						seenU := map[*ident]bool{}
						for _, w := range m.refs {
							if !seenU[w] {
								seenU[w] = true
								wantU = append(wantU, w)
							}
						}
						ul := e.Dir["u"+m.name]
						switch {
						case ul == nil || ul.Type == nil:
							bad("identityref-unresolved", "leaf u%s", m.name)
						case len(wantU) >= 2 && len(ul.Type.Type) != len(wantU):
							bad("identityref-union-members", "leaf u%s: the union has %d members, %d identityrefs with distinct bases were written", m.name, len(ul.Type.Type), len(wantU))
						case len(wantU) >= 2:
							for k, w := range wantU {
								ib := ul.Type.Type[k].IdentityBase
								if ib == nil || ownerName(ib) != w.mod.name || ib.Name != w.name {
									bad("identityref-wrong-base", "leaf u%s: union member %d does not point at %s:%s", m.name, k, w.mod.name, w.name)
								}
							}
							s.Count("identityref_union_checks", 1)
						}
					}
					for i, want := range m.refs {
						leaf := e.Dir[fmt.Sprintf("r%s%d", m.name, i)]
						if leaf == nil || leaf.Type == nil || leaf.Type.IdentityBase == nil {
							bad("identityref-unresolved", "leaf r%s%d", m.name, i)
							continue
						}
						ib := leaf.Type.IdentityBase
						if li := e.Identities; true {
							same := false
							for _, mm := range ms.Modules {
								for _, id := range yang.ToEntry(mm).Identities {
									if id == ib {
										same = true
									}
								}
							}
							for _, sm := range ms.SubModules {
								for _, id := range sm.Identity {
									if id == ib {
										same = true
									}
								}
							}
							_ = li
							if !same {
								bad("identityref-not-the-identity-object", "leaf r%s%d: its base is a copy, not the identity %s:%s itself (it cannot see the same list)", m.name, i, want.mod.name, want.name)
							}
							s.Count("identityref_checks", 1)
						}
						if ownerName(ib) != want.mod.name || ib.Name != want.name {
							bad("identityref-wrong-base", "leaf r%s%d points at %s:%s, base names %s:%s", m.name, i, ownerName(ib), ib.Name, want.mod.name, want.name)
						} else if o := objOf[want.mod.module().name+":"+want.name]; o != nil && o != ib {
							bad("identityref-wrong-object", "leaf r%s%d points at an identity %s:%s that is not the one of the latest revision of that module (defined at %s, the module's is at %s)", m.name, i, ownerName(ib), ib.Name, yang.Source(ib), yang.Source(o))
						}
					}
				}
			}()
			if libErr != "" {
				break
			}
		}
		if c%1000 == 0 {
			s.Sample(1, cs)
		}
	}
}
