package schema

import (
	"fmt"
	"math/rand"
	"strconv"
	"strings"
)

type Gen struct {
	IfFeatures   bool // nodes, uses and augments may carry if-feature statements
	Posix        bool // string types may carry openconfig-extensions posix-patterns (load OCXText too)
	TypeErrors   bool // also generate unknown and cyclic type references
	grNames      []string
	NoSubs       bool
	Typedefs     bool
	tdNames      []string
	NoActInGroup bool
	NoAbsentIO   bool
	IONames      bool // some data nodes are named input or output
	ioUsed       map[string]bool
	R            *rand.Rand
	n            int
	Mods         []*Mod // modules and submodules
}

func (g *Gen) name(p string) string {
	g.n++
	// One name in seven of data nodes, keys, typedefs and groupings begins with an underscore
	// (an identifier may): decided by the counter, not by a draw.
	if g.n%7 == 3 && (p == "n" || p == "k" || p == "t" || p == "g") {
		return fmt.Sprintf("_%s%d", p, g.n)
	}
	return fmt.Sprintf("%s%d", p, g.n)
}

func (g *Gen) pick(n int) int { return g.R.Intn(n) }

// iff draws if-feature statements: none most of the time, else 1-4 (three and more matter:
// a slice of three has spare capacity, which is where copies that share it go wrong)
func (g *Gen) iff(oneIn int) []string {
	if !g.IfFeatures || g.pick(oneIn) > 0 {
		return nil
	}
	var out []string
	for n := []int{1, 2, 3, 3, 4}[g.pick(5)]; n > 0; n-- {
		out = append(out, fmt.Sprintf("fz%d", g.pick(5)))
	}
	return out
}

// impPrefix chooses the prefix of a new import in file f. Prefixes are local to a file:
// one time in three the prefix comes from a small pool (so that two files, or a module
// and its submodule, bind one prefix string to different modules), and a submodule whose
// belongs-to prefix differs from its module's own prefix may use exactly that prefix
// for something else.
func (g *Gen) impPrefix(f *Mod) string {
	if g.pick(3) == 0 {
		pool := []string{"q0", "q1", "q2"}
		if f.Sub && f.Owner != nil && f.Owner.Prefix != f.Prefix {
			pool = append(pool, f.Owner.Prefix, f.Owner.Prefix)
		}
		// the name of a module imported earlier in this file, as the prefix of another
		// module (prefixes and module names are different things, and a prefix that reads
		// like a module name still denotes the module it was declared for)
		for _, im := range f.Imports {
			pool = append(pool, im.Mod.Name, im.Mod.Name)
		}
		// the file's own prefix, or that of an earlier import, in capital letters: prefixes
		// are case-sensitive, "P3" and "p3" are two prefixes
		if up := strings.ToUpper(f.Prefix); up != f.Prefix {
			pool = append(pool, up)
		}
		for _, im := range f.Imports {
			if up := strings.ToUpper(im.Prefix); up != im.Prefix {
				pool = append(pool, up)
			}
		}
		q := pool[g.pick(len(pool))]
		taken := q == f.Prefix
		for _, im := range f.Imports {
			taken = taken || im.Prefix == q
		}
		if !taken {
			return q
		}
	}
	return g.name("i")
}

// grName names a new grouping defined in scope s. One time in four it reuses the name of
// a grouping defined elsewhere, where that is valid YANG: not in the same scope, not in an
// enclosing scope, and not at the top level of the same module or one of its submodules
// (all of which are visible unprefixed). Equal names in different modules are what makes
// a prefixed reference differ from an unprefixed one.
func (g *Gen) grName(s *Scope) string {
	if len(g.grNames) > 0 && g.pick(4) == 0 {
		name := g.grNames[g.pick(len(g.grNames))]
		clash := false
		for sc := s; sc != nil; sc = sc.Parent {
			for _, gr := range sc.Groupings {
				if gr.Name == name {
					clash = true
				}
			}
		}
		fam := s.File.Module()
		for _, f := range append([]*Mod{fam}, g.Mods...) {
			if f == fam || f.Module() == fam {
				for _, gr := range f.Body.Groupings {
					if gr.Name == name {
						clash = true
					}
				}
			}
		}
		if !clash {
			return name
		}
	}
	n := g.name("g")
	g.grNames = append(g.grNames, n)
	return n
}

func boolp(b bool) *bool { return &b }

// visibleGroupings returns (qname, grouping) pairs usable from scope s.
func (g *Gen) visibleGroupings(s *Scope) []string {
	var out []string
	seenName := map[string]bool{}
	f := s.File
	for sc := s; sc != nil; sc = sc.Parent {
		for _, gr := range sc.Groupings {
			if !seenName[gr.Name] {
				seenName[gr.Name] = true
				q := gr.Name
				if g.pick(3) == 0 {
					q = f.Prefix + ":" + gr.Name
				}
				out = append(out, q)
			}
		}
	}
	var subs []*Mod
	subsTransitive(f, map[*Mod]bool{}, &subs)
	for _, sm := range subs {
		for _, gr := range sm.Body.Groupings {
			if !seenName[gr.Name] {
				seenName[gr.Name] = true
				out = append(out, gr.Name)
			}
		}
	}
	if f.Sub && f.Owner != nil {
		// what the module the submodule belongs to, and its other submodules, define
		own := append([]*Grouping{}, f.Owner.Body.Groupings...)
		subs = nil
		subsTransitive(f.Owner, map[*Mod]bool{}, &subs)
		for _, sm := range subs {
			own = append(own, sm.Body.Groupings...)
		}
		for _, gr := range own {
			if !seenName[gr.Name] {
				seenName[gr.Name] = true
				q := gr.Name
				if g.pick(3) == 0 {
					q = f.Prefix + ":" + gr.Name
				}
				out = append(out, q)
			}
		}
	}
	for _, im := range f.Imports {
		for _, gr := range im.Mod.Body.Groupings {
			out = append(out, im.Prefix+":"+gr.Name)
		}
		var subs []*Mod
		subsTransitive(im.Mod, map[*Mod]bool{}, &subs)
		for _, sm := range subs {
			for _, gr := range sm.Body.Groupings {
				out = append(out, im.Prefix+":"+gr.Name)
			}
		}
	}
	return out
}

type ctx struct {
	inRPC    bool // no config statements, no action/notification
	inChoice bool
	depth    int
	inGroup  bool
	pk       string // parent kind: module container list choice case grouping input output notification augment
}

var allowTypedef = map[string]bool{"module": true, "container": true, "list": true, "grouping": true, "input": true, "output": true, "notification": true}
var allowGrouping = map[string]bool{"module": true, "container": true, "list": true, "grouping": true, "input": true, "output": true, "notification": true}
var allowUses = map[string]bool{"module": true, "container": true, "list": true, "case": true, "grouping": true, "input": true, "output": true, "notification": true, "augment": true}
var allowActNotif = map[string]bool{"container": true, "list": true, "grouping": true, "augment": true}

func (g *Gen) visibleTypedefs(s *Scope) []string {
	var out []string
	f := s.File
	seen := map[string]bool{}
	for sc := s; sc != nil; sc = sc.Parent {
		for _, td := range sc.Typedefs {
			if !seen[td.Name] {
				seen[td.Name] = true
				q := td.Name
				if g.pick(3) == 0 {
					q = f.Prefix + ":" + q
				}
				out = append(out, q)
			}
		}
	}
	for _, sm := range f.Includes {
		for _, td := range sm.Body.Typedefs {
			if !seen[td.Name] {
				seen[td.Name] = true
				out = append(out, td.Name)
			}
		}
	}
	if f.Sub && f.Owner != nil {
		own := append([]*Typedef{}, f.Owner.Body.Typedefs...)
		for _, sm := range f.Owner.Includes {
			own = append(own, sm.Body.Typedefs...)
		}
		for _, td := range own {
			if !seen[td.Name] {
				seen[td.Name] = true
				q := td.Name
				if g.pick(3) == 0 {
					q = f.Prefix + ":" + q
				}
				out = append(out, q)
			}
		}
	}
	for _, im := range f.Imports {
		for _, td := range im.Mod.Body.Typedefs {
			out = append(out, im.Prefix+":"+td.Name)
		}
		for _, sm := range im.Mod.Includes {
			for _, td := range sm.Body.Typedefs {
				out = append(out, im.Prefix+":"+td.Name)
			}
		}
	}
	return out
}

// special builds a type statement whose attributes must survive a derivation chain:
// an enumeration, a leafref, a decimal64 or a union of distinct built-ins.
func (g *Gen) special(s *Scope) *TypeRef {
	// written values for some members: ascending, descending below what came before, negative,
	// at the top of the range only for the last member (so that nothing overflows or collides)
	vals := func(n int, bits bool) []string {
		if g.pick(2) == 0 {
			return nil
		}
		out := make([]string, n)
		used := map[int64]bool{}
		first, max := true, int64(0)
		for k := 0; k < n; k++ {
			var v int64
			switch g.pick(4) {
			case 0, 1: // implicit
				if !first {
					v = max + 1
				}
			case 2:
				v = max + 2 + int64(g.pick(40))
				out[k] = strconv.FormatInt(v, 10)
			default:
				v = int64(g.pick(60)) - 30
				if bits && v < 0 {
					v = -v
				}
				if !bits && k == n-1 && g.pick(3) == 0 {
					v = []int64{2147483647, -2147483648}[g.pick(2)]
				}
				if bits && k == n-1 && g.pick(3) == 0 {
					v = 4294967295
				}
				for used[v] {
					v++
				}
				out[k] = strconv.FormatInt(v, 10)
			}
			used[v] = true
			if first || v > max {
				max = v
			}
			first = false
		}
		return out
	}
	switch g.pick(6) {
	case 0:
		t := &TypeRef{Name: "enumeration", Scope: s}
		for q := 2 + g.pick(3); q > 0; q-- {
			t.Enums = append(t.Enums, g.name("e"))
		}
		t.EnumVals = vals(len(t.Enums), false)
		return t
	case 4:
		t := &TypeRef{Name: "bits", Scope: s}
		for q := 1 + g.pick(4); q > 0; q-- {
			t.Bits = append(t.Bits, g.name("b"))
		}
		t.BitPos = vals(len(t.Bits), true)
		return t
	case 5:
		return &TypeRef{Name: "string", Length: []string{"1..10", "0..5|10", "3", "0|2..4|18446744073709551615", "255"}[g.pick(5)], Scope: s}
	case 1:
		return &TypeRef{Name: "leafref", Path: "../" + g.name("lp"), Scope: s}
	case 2:
		return &TypeRef{Name: "decimal64", Frac: 1 + g.pick(18), Scope: s}
	}
	t := &TypeRef{Name: "union", Scope: s}
	ms := []string{"string", "int8", "boolean", "uint32"}
	g.R.Shuffle(len(ms), func(a, b int) { ms[a], ms[b] = ms[b], ms[a] })
	for _, m := range ms[:2+g.pick(2)] {
		t.Members = append(t.Members, &TypeRef{Name: m, Scope: s})
	}
	if g.pick(3) == 0 {
		// two members of one kind that differ only in what they list: two enumerations, or two
		// bits types, with different members (equal member types would count as one)
		for q := 0; q < 2; q++ {
			if g.pick(2) == 0 {
				m := &TypeRef{Name: "enumeration", Scope: s}
				for k := 1 + g.pick(2); k > 0; k-- {
					m.Enums = append(m.Enums, g.name("e"))
				}
				t.Members = append(t.Members, m)
			} else {
				m := &TypeRef{Name: "bits", Scope: s}
				for k := 1 + g.pick(2); k > 0; k-- {
					m.Bits = append(m.Bits, g.name("b"))
				}
				t.Members = append(t.Members, m)
			}
		}
		g.R.Shuffle(len(t.Members), func(a, b int) { t.Members[a], t.Members[b] = t.Members[b], t.Members[a] })
	}
	return t
}

func (g *Gen) typeRef(s *Scope) *TypeRef {
	ts := []string{"string", "int8", "uint32", "boolean", "empty"}
	t := &TypeRef{Name: ts[g.pick(len(ts))], Scope: s}
	if g.Typedefs && g.pick(10) == 0 {
		return g.special(s)
	}
	if g.Typedefs && g.pick(6) == 0 {
		// an integer with a range restriction, written in canonical form (sorted, disjoint,
		// not adjacent), which every type derived from it inherits
		if g.pick(2) == 0 {
			return &TypeRef{Name: "int8", Range: []string{"1..10", "-5..5|20..30", "-128..-1", "0", "-128..-100|-3|7..127"}[g.pick(5)], Scope: s}
		}
		return &TypeRef{Name: "uint32", Range: []string{"1..10", "0..100|200..300", "4294967295", "0|2|4..4294967294"}[g.pick(4)], Scope: s}
	}
	if g.TypeErrors && g.pick(40) == 0 {
		// error side: a name nothing defines, behind no prefix, the own prefix or an unknown prefix
		bad := g.name("nosuch")
		if g.pick(3) == 0 {
			// a built-in name behind a prefix is not the built-in type: it names a typedef of
			// that module, and there is none
			bad = []string{"string", "uint8", "boolean", "union", "enumeration"}[g.pick(5)]
			switch im := s.File.Imports; {
			case len(im) > 0 && g.pick(2) == 0:
				bad = im[g.pick(len(im))].Prefix + ":" + bad
			default:
				bad = s.File.Prefix + ":" + bad
			}
			return &TypeRef{Name: bad, Scope: s}
		}
		// a typedef that exists, behind the prefix its module declares for itself, in a file
		// that imports that module under another prefix and binds the declared one to
		// nothing: the prefix is unknown here, whatever it means elsewhere
		unbound := ""
		for _, im := range s.File.Imports {
			own := im.Mod.Prefix
			bound := own == s.File.Prefix || im.Prefix == own || len(im.Mod.Body.Typedefs) == 0
			for _, other := range s.File.Imports {
				bound = bound || other.Prefix == own
			}
			if s.File.Sub && s.File.Owner != nil {
				bound = bound || s.File.Owner.Prefix == own
			}
			if !bound {
				unbound = own + ":" + im.Mod.Body.Typedefs[g.pick(len(im.Mod.Body.Typedefs))].Name
				break
			}
		}
		switch x := g.pick(3); {
		case unbound != "" && g.pick(3) > 0:
			bad = unbound
		case x == 1:
			bad = s.File.Prefix + ":" + bad
		case x == 2:
			bad = "zz" + g.name("u") + ":" + bad
		}
		return &TypeRef{Name: bad, Scope: s}
	}
	if g.Typedefs && g.pick(2) == 0 {
		if vis := g.visibleTypedefs(s); len(vis) > 0 {
			t.Name = vis[g.pick(len(vis))]
		}
	}
	if g.Typedefs {
		k := (&Resolver{}).ResolveType(t, 0)
		if k.Err == "" && k.Kind == "string" {
			for q := g.pick(3); q > 0; q-- {
				t.Patterns = append(t.Patterns, g.name("pat"))
			}
			if g.Posix && g.pick(3) == 0 {
				for q := 1 + g.pick(2); q > 0; q-- {
					t.Posix = append(t.Posix, "^"+g.name("px")+"$")
				}
				s.File.OCX = true
			}
			// the two lists are separate: a pattern that repeats the text of a posix-pattern
			// stated further up the chain is a pattern of its own, and the other way round
			if g.Posix && len(k.Posix) > 0 && g.pick(2) == 0 {
				t.Patterns = append(t.Patterns, k.Posix[g.pick(len(k.Posix))])
			}
			if g.Posix && len(k.Patterns) > 0 && g.pick(4) == 0 {
				t.Posix = append(t.Posix, k.Patterns[g.pick(len(k.Patterns))])
				s.File.OCX = true
			}
		}
	}
	return t
}

// addCycle adds typedefs that refer to each other in a ring of one to three.
func (g *Gen) addCycle(s *Scope) {
	if s.Parent != nil && g.pick(2) == 0 {
		// a typedef in an inner scope that names itself while a typedef of the same name
		// exists further out: the name binds to the nearest definition, which is the typedef
		// itself, so this is a ring of one and not a derivation from the outer typedef
		var outer []string
		for sc := s.Parent; sc != nil; sc = sc.Parent {
			for _, td := range sc.Typedefs {
				outer = append(outer, td.Name)
			}
		}
		for _, sm := range s.File.Includes {
			for _, td := range sm.Body.Typedefs {
				outer = append(outer, td.Name)
			}
		}
		if len(outer) > 0 {
			nm := outer[g.pick(len(outer))]
			for _, td := range s.Typedefs {
				if td.Name == nm {
					nm = ""
				}
			}
			if nm != "" {
				q := nm
				if g.pick(3) == 0 {
					q = s.File.Prefix + ":" + nm
				}
				s.Typedefs = append(s.Typedefs, &Typedef{Name: nm, Scope: s, Type: &TypeRef{Name: q, Scope: s}})
				return
			}
		}
	}
	n := 1 + g.pick(3)
	var names []string
	for i := 0; i < n; i++ {
		names = append(names, g.name("cyc"))
	}
	for i, nm := range names {
		s.Typedefs = append(s.Typedefs, &Typedef{Name: nm, Scope: s, Type: &TypeRef{Name: names[(i+1)%n], Scope: s}})
	}
}

func (g *Gen) addTypedefs(s *Scope) {
	if g.TypeErrors && g.pick(40) == 0 {
		g.addCycle(s)
	}
	for q := g.pick(3); q > 0; q-- {
		name := g.name("t")
		reused := false
		// shadowing / same name elsewhere
		if len(g.tdNames) > 0 && g.pick(3) == 0 {
			reused = true
			name = g.tdNames[g.pick(len(g.tdNames))]
			clash := false
			for _, td := range s.Typedefs {
				if td.Name == name {
					clash = true
				}
			}
			if s.Parent == nil {
				// top level: not the same name twice within one module family
				fam := s.File.Module()
				for _, f := range g.Mods {
					if f.Module() == fam || f == fam {
						for _, td := range f.Body.Typedefs {
							if td.Name == name {
								clash = true
							}
						}
					}
				}
				for _, td := range fam.Body.Typedefs {
					if td.Name == name {
						clash = true
					}
				}
			}
			if clash {
				continue
			}
		}
		td := &Typedef{Name: name, Scope: s}
		td.Type = g.typeRef(s)
		if !reused && g.pick(4) == 0 {
			td.Type = g.special(s)
		}
		if reused {
			// a shadowing typedef changes what earlier references in this scope bind to;
			// keep it cycle-free by basing it on a built-in.
			ts := []string{"string", "int8", "boolean"}
			td.Type = &TypeRef{Name: ts[g.pick(len(ts))], Scope: s}
		}
		switch g.pick(6) {
		case 0, 1:
			td.Units = g.name("u")
			td.UnitsSet = true
		case 2:
			td.UnitsSet = true // units ""; - stated, and empty: it still wins over an inherited one
		}
		if k := (&Resolver{}).ResolveType(td.Type, 0); k.Kind == "string" && g.pick(3) == 0 {
			td.HasDef = true
			td.Default = g.name("dv")
		}
		s.Typedefs = append(s.Typedefs, td)
		g.tdNames = append(g.tdNames, name)
	}
}

// expNames returns the set of child names scope s expands to (uses expanded).
func (g *Gen) expNames(s *Scope, depth int) map[string]bool {
	out := map[string]bool{}
	if s == nil || depth > 20 {
		return out
	}
	for _, it := range s.Items {
		if it.Node != nil {
			out[it.Node.Name] = true
			continue
		}
		if gr := (&Resolver{}).findGrouping(s, it.Uses); gr != nil {
			for k := range g.expNames(gr.Body, depth+1) {
				out[k] = true
			}
		}
	}
	return out
}

func (g *Gen) fillScope(s *Scope, c ctx, budget int) {
	if g.Typedefs && allowTypedef[c.pk] && g.pick(3) == 0 {
		g.addTypedefs(s)
	}
	// nested groupings occasionally
	if c.depth < 3 && allowGrouping[c.pk] && g.pick(5) == 0 {
		gr := &Grouping{Name: g.grName(s), Body: &Scope{Parent: s, File: s.File}}
		s.Groupings = append(s.Groupings, gr)
		g.fillScope(gr.Body, ctx{inRPC: c.inRPC, depth: c.depth + 1, inGroup: true, pk: "grouping"}, 3)
	}
	n := 1 + g.pick(budget)
	for i := 0; i < n; i++ {
		if allowUses[c.pk] && !c.inChoice && g.pick(4) == 0 {
			vis := g.visibleGroupings(s)
			// avoid self-recursive uses: only groupings not enclosing this scope. Simple rule:
			// exclude groupings whose body is an ancestor scope.
			var ok []string
			for _, q := range vis {
				gr := (&Resolver{}).findGrouping(s, q)
				if gr == nil {
					continue
				}
				anc := false
				for sc := s; sc != nil; sc = sc.Parent {
					if sc == gr.Body {
						anc = true
					}
				}
				if !anc && !g.usesReach(gr, s) {
					have := g.expNames(s, 0)
					clash := false
					for k := range g.expNames(gr.Body, 0) {
						if have[k] {
							clash = true
						}
					}
					if !clash {
						ok = append(ok, q)
					}
				}
			}
			if len(ok) > 0 {
				s.Items = append(s.Items, &Item{Uses: ok[g.pick(len(ok))], UsesIfF: g.iff(3)})
				continue
			}
		}
		s.Items = append(s.Items, &Item{Node: g.node(s, c)})
	}
}

// usesReach reports whether grouping gr (transitively via uses) reaches a grouping whose body encloses scope s
// (which would make a cycle if s used gr).
func (g *Gen) usesReach(gr *Grouping, s *Scope) bool {
	var encl []*Scope
	for sc := s; sc != nil; sc = sc.Parent {
		encl = append(encl, sc)
	}
	seen := map[*Grouping]bool{}
	var walk func(sc *Scope) bool
	var visit func(x *Grouping) bool
	visit = func(x *Grouping) bool {
		if seen[x] {
			return false
		}
		seen[x] = true
		for _, e := range encl {
			if e == x.Body {
				return true
			}
		}
		return walk(x.Body)
	}
	walk = func(sc *Scope) bool {
		if sc == nil {
			return false
		}
		for _, it := range sc.Items {
			if it.Node == nil {
				if y := (&Resolver{}).findGrouping(sc, it.Uses); y != nil && visit(y) {
					return true
				}
				continue
			}
			if walk(it.Node.Body) {
				return true
			}
			if it.Node.Input != nil && walk(it.Node.Input.Body) {
				return true
			}
			if it.Node.Output != nil && walk(it.Node.Output.Body) {
				return true
			}
		}
		for _, gg := range sc.Groupings {
			_ = gg
		}
		return false
	}
	return visit(gr)
}

func (g *Gen) node(s *Scope, c ctx) *Node {
	kinds := []string{"leaf", "leaf", "leaf-list", "container", "container", "list", "choice", "anyxml"}
	if c.inChoice {
		kinds = []string{"leaf", "container", "case", "case", "leaf-list"}
	}
	if c.pk == "case" && c.depth < 4 {
		kinds = []string{"leaf", "leaf", "leaf-list", "container", "list", "choice", "anyxml"}
	}
	if c.depth >= 4 {
		kinds = []string{"leaf", "leaf-list"}
	}
	if !c.inRPC && !c.inChoice && c.depth <= 2 && g.pick(8) == 0 {
		if allowActNotif[c.pk] {
			kinds = []string{"action", "notification"}
			if g.NoActInGroup && (c.inGroup || c.pk == "augment") {
				kinds = []string{"notification"}
			}
		} else if c.pk == "module" {
			kinds = []string{"rpc", "notification"}
		}
	}
	k := kinds[g.pick(len(kinds))]
	n := &Node{Kind: k, Name: g.name("n")}
	if g.IONames && (k == "container" || k == "leaf" || k == "list") && (c.pk == "container" || c.pk == "list") && !c.inGroup && !c.inChoice && g.pick(10) == 0 {
		// data nodes that happen to be called input or output (each name once per set, so
		// that no two of them can meet in one parent): below anything but an rpc or action
		// they are children like all others
		for _, nm := range []string{"input", "output"} {
			if !g.ioUsed[nm] {
				if g.ioUsed == nil {
					g.ioUsed = map[string]bool{}
				}
				g.ioUsed[nm] = true
				n.Name = nm
				break
			}
		}
	}
	if k != "rpc" && k != "action" && k != "notification" {
		n.IfF = g.iff(5)
	}
	shorthand := c.inChoice && k != "case"
	if !c.inRPC && !shorthand && k != "case" && k != "rpc" && k != "action" && k != "notification" && g.pick(4) == 0 {
		n.Config = boolp(g.pick(2) == 0)
	}
	sub := func() *Scope { return &Scope{Parent: s, File: s.File} }
	switch k {
	case "leaf":
		n.Type = g.typeRef(s)
		if g.pick(4) == 0 {
			n.Default = []string{"d"}
			n.Type = &TypeRef{Name: "string", Scope: s}
		}
	case "leaf-list":
		n.Type = g.typeRef(s)
		n.OrdUser = ordUser(n.Name)
	case "container", "case":
		n.Body = sub()
		if g.pick(6) > 0 { // one in six stays childless (an "extension point" for augments)
			g.fillScope(n.Body, ctx{inRPC: c.inRPC, depth: c.depth + 1, inGroup: c.inGroup, pk: k}, 3)
		}
	case "list":
		n.OrdUser = ordUser(n.Name)
		n.Body = sub()
		kn := g.name("k")
		n.Key = kn
		keyLeaf := &Node{Kind: "leaf", Name: kn, Type: &TypeRef{Name: "string", Scope: n.Body}}
		if !c.inRPC && g.pick(6) == 0 {
			// a key leaf with a config statement of its own (RFC 7950 wants it to agree with
			// the list's; goyang does not check, and the leaf's own statement is what counts)
			v := g.pick(2) == 0
			keyLeaf.Config = &v
		}
		n.Body.Items = append(n.Body.Items, &Item{Node: keyLeaf})
		g.fillScope(n.Body, ctx{inRPC: c.inRPC, depth: c.depth + 1, inGroup: c.inGroup, pk: "list"}, 2)
		if g.pick(3) == 0 {
			v := uint64(1 + g.pick(3))
			n.Min = &v
		}
	case "choice":
		n.Body = sub()
		g.fillScope(n.Body, ctx{inRPC: c.inRPC, inChoice: true, depth: c.depth + 1, inGroup: c.inGroup, pk: "choice"}, 3)
		if g.pick(4) == 0 {
			// a default case, named among the members written here
			for _, it := range n.Body.Items {
				if it.Node != nil {
					n.Default = []string{it.Node.Name}
					break
				}
			}
		}
	case "anyxml":
	case "notification":
		n.Body = sub()
		if g.pick(6) > 0 {
			g.fillScope(n.Body, ctx{inRPC: true, depth: c.depth + 1, inGroup: c.inGroup, pk: "notification"}, 2)
		}
	case "rpc", "action":
		if g.pick(3) > 0 {
			n.Input = &Node{Kind: "input", Name: "input", Body: sub()}
			if g.pick(6) > 0 {
				g.fillScope(n.Input.Body, ctx{inRPC: true, depth: c.depth + 1, inGroup: c.inGroup, pk: "input"}, 2)
			}
		}
		if g.pick(3) > 0 {
			n.Output = &Node{Kind: "output", Name: "output", Body: sub()}
			if g.pick(6) > 0 {
				g.fillScope(n.Output.Body, ctx{inRPC: true, depth: c.depth + 1, inGroup: c.inGroup, pk: "output"}, 2)
			}
		}
	}
	return n
}

// Build generates a module set.
func (g *Gen) Build() {
	nm := 1 + g.pick(3)
	var mods []*Mod
	for i := 0; i < nm; i++ {
		name := g.name("m")
		m := &Mod{Name: name, Prefix: g.name("p"), NS: "urn:" + name}
		if i == 1 && g.pick(8) == 0 {
			// two namespaces that differ in nothing but the case of a letter are two namespaces
			mods[0].NS = "urn:ns:Shared"
			m.NS = "urn:ns:shared"
		}
		if len(mods) > 0 && g.pick(4) == 0 {
			m.Prefix = mods[0].Prefix // modules may declare the same prefix for themselves
		}
		m.Body = &Scope{File: m}
		// imports of earlier modules
		for _, e := range mods {
			if g.pick(2) == 0 {
				m.Imports = append(m.Imports, &Import{Mod: e, Prefix: g.impPrefix(m)})
			}
		}
		// submodules
		ns := g.pick(3)
		if g.NoSubs {
			ns = 0
		}
		var subs []*Mod
		for j := 0; j < ns; j++ {
			s := &Mod{Sub: true, Name: g.name("s"), Owner: m, Prefix: m.Prefix}
			if g.pick(2) == 0 {
				s.Prefix = g.name("bp")
			}
			s.Body = &Scope{File: s}
			for _, e := range mods {
				if g.pick(3) == 0 {
					s.Imports = append(s.Imports, &Import{Mod: e, Prefix: g.impPrefix(s)})
				}
			}
			// submodule may include earlier submodules
			for _, e := range subs {
				if g.pick(2) == 0 {
					s.Includes = append(s.Includes, e)
				}
			}
			// top-level groupings + content
			for q := g.pick(3); q > 0; q-- {
				gr := &Grouping{Name: g.grName(s.Body), Body: &Scope{Parent: s.Body, File: s}}
				s.Body.Groupings = append(s.Body.Groupings, gr)
				g.fillScope(gr.Body, ctx{depth: 1, inGroup: true, pk: "grouping"}, 3)
			}
			g.fillScope(s.Body, ctx{pk: "module"}, 3)
			subs = append(subs, s)
			m.Includes = append(m.Includes, s)
			g.Mods = append(g.Mods, s)
		}
		for q := g.pick(4); q > 0; q-- {
			gr := &Grouping{Name: g.grName(m.Body), Body: &Scope{Parent: m.Body, File: m}}
			m.Body.Groupings = append(m.Body.Groupings, gr)
			g.fillScope(gr.Body, ctx{depth: 1, inGroup: true, pk: "grouping"}, 3)
		}
		g.fillScope(m.Body, ctx{pk: "module"}, 4)
		mods = append(mods, m)
		g.Mods = append(g.Mods, m)
	}
	// augments: chosen against the expected tree so far
	na := g.pick(5)
	for i := 0; i < na; i++ {
		r := &Resolver{Mods: g.Mods}
		r.Resolve()
		if len(r.Errs) > 0 {
			return
		}
		// choose augmenting file
		f := g.Mods[g.pick(len(g.Mods))]
		// candidate targets: nodes in modules that f can name
		type cand struct {
			x    *X
			root *Mod
		}
		var cands []cand
		var walk func(x *X, root *Mod)
		walk = func(x *X, root *Mod) {
			if x.Parent != nil && canHaveChildren(x.Kind) && !x.Implicit {
				cands = append(cands, cand{x, root})
			}
			for _, c := range x.Sorted() {
				walk(c, root)
			}
			if x.Kind == "rpc" || x.Kind == "action" {
				// input/output always targetable
				for _, io := range []string{"input", "output"} {
					var t *X
					if io == "input" {
						t = x.In
					} else {
						t = x.Out
					}
					if t == nil {
						if g.NoAbsentIO {
							continue
						}
						t = &X{Name: io, Kind: io, Parent: x}
						cands = append(cands, cand{t, root})
					} else {
						walk(t, root)
					}
				}
			}
		}
		for root, x := range r.Roots {
			if root == f.Module() || f.importPrefixFor(root) != "" {
				walk(x, root)
			}
		}
		if len(cands) == 0 {
			continue
		}
		// deterministic order for reproducibility
		sortCands := func() {
			for i := 1; i < len(cands); i++ {
				for j := i; j > 0 && cands[j].x.Path() < cands[j-1].x.Path(); j-- {
					cands[j], cands[j-1] = cands[j-1], cands[j]
				}
			}
		}
		sortCands()
		c := cands[g.pick(len(cands))]
		pfx := f.Prefix
		if c.root != f.Module() {
			pfx = f.importPrefixFor(c.root)
		}
		var names []string
		for x := c.x; x.Parent != nil; x = x.Parent {
			names = append([]string{x.Name}, names...)
		}
		var path []Step
		for _, n := range names {
			path = append(path, Step{pfx, n})
		}
		a := &Augment{Path: path, File: f, Body: &Scope{File: f, Parent: f.Body}, IfF: g.iff(3)}
		cc := ctx{depth: 2, pk: "augment"}
		for x := c.x; x != nil; x = x.Parent {
			switch x.Kind {
			case "input", "output", "notification":
				cc.inRPC = true
			}
		}
		if c.x.Kind == "choice" {
			cc.inChoice = true
		}
		g.fillScope(a.Body, cc, 2)
		f.Augments = append(f.Augments, a)
		tr := &Resolver{Mods: g.Mods}
		tr.Resolve()
		if len(tr.Errs) > 0 {
			f.Augments = f.Augments[:len(f.Augments)-1]
		}
	}
	// include statements may stand in any order (a submodule that includes another one may
	// well be named before it)
	for _, m := range g.Mods {
		g.R.Shuffle(len(m.Includes), func(a, b int) { m.Includes[a], m.Includes[b] = m.Includes[b], m.Includes[a] })
	}
}

func (f *Mod) importPrefixFor(m *Mod) string {
	for _, im := range f.Imports {
		if im.Mod == m {
			return im.Prefix
		}
	}
	return ""
}

// ordUser decides from the name alone (no draw from the generator's random source, so the
// sets of earlier runs keep their shape) whether a list or leaf-list is ordered by the user.
func ordUser(name string) bool {
	h := 0
	for i := 0; i < len(name); i++ {
		h = h*31 + int(name[i])
	}
	return h%3 == 0
}
