// Package schema is the abstract model of a YANG module set, its printer, its
// generators and the reference resolver (DESIGN.md appendix A).
package schema

import (
	"fmt"
	"sort"
	"strconv"
	"strings"
)

type Mod struct {
	OCX      bool // the file imports openconfig-extensions as ocx (for posix-pattern)
	Sub      bool
	Name     string
	Prefix   string // own prefix (module) or belongs-to prefix (submodule)
	NS       string
	Owner    *Mod // for submodules
	Revs     []string
	Imports  []*Import
	Includes []*Mod
	Idents   []*Ident
	Body     *Scope
	Augments []*Augment
	Devs     []*Deviation
}

type Import struct {
	Mod    *Mod
	Prefix string
}

type Ident struct {
	Name  string
	Bases []string // qnames as written
}

type Scope struct {
	Parent    *Scope
	File      *Mod
	Typedefs  []*Typedef
	Groupings []*Grouping
	Items     []*Item
}

type Item struct {
	Node    *Node
	Uses    string   // qname as written
	UsesIfF []string // if-feature statements of the uses
}

type Typedef struct {
	UnitsSet bool // a units statement is written (possibly with an empty argument)
	Name     string
	Type     *TypeRef
	Units    string
	Default  string
	HasDef   bool
	Scope    *Scope // scope it is defined in
}

type Grouping struct {
	Name string
	Body *Scope
}

type TypeRef struct {
	Name     string // qname as written
	Patterns []string
	Posix    []string // openconfig-extensions posix-pattern statements (the file must import that module as ocx)
	Range    string
	Enums    []string   // Name == "enumeration"
	EnumVals []string   // parallel to Enums when not nil: the written value ("" = none written)
	Bits     []string   // Name == "bits"
	BitPos   []string   // parallel to Bits when not nil: the written position ("" = none written)
	Length   string     // length restriction of a string, in canonical form
	Path     string     // Name == "leafref"
	Members  []*TypeRef // Name == "union"
	Frac     int        // Name == "decimal64"
	Scope    *Scope     // scope of the type statement
}

type Node struct {
	IfF       []string // if-feature statements, in written order
	Kind      string   // container list leaf leaf-list choice case anyxml anydata rpc action notification input output
	Name      string
	Config    *bool
	Type      *TypeRef
	Default   []string
	Mandatory *bool
	Key       string
	Min, Max  *uint64
	OrdUser   bool   // ordered-by user (lists and leaf-lists)
	Body      *Scope // children (and local typedefs/groupings)
	Input     *Node
	Output    *Node
}

type Step struct{ Prefix, Name string }

type Augment struct {
	IfF  []string
	Path []Step
	Body *Scope
	File *Mod
}

type Deviation struct {
	Path []Step
	File *Mod
	// TODO deviates
}

func (m *Mod) Module() *Mod {
	if m.Sub {
		return m.Owner
	}
	return m
}

// ---------- printer ----------

type printer struct {
	b   strings.Builder
	ind int
}

func (p *printer) line(f string, a ...interface{}) {
	p.b.WriteString(strings.Repeat("  ", p.ind))
	fmt.Fprintf(&p.b, f, a...)
	p.b.WriteString("\n")
}

func pathString(path []Step) string {
	s := ""
	for _, st := range path {
		s += "/"
		if st.Prefix != "" {
			s += st.Prefix + ":"
		}
		s += st.Name
	}
	return s
}

func Print(m *Mod) string {
	p := &printer{}
	if m.Sub {
		p.line("submodule %s {", m.Name)
		p.ind++
		p.line("belongs-to %s { prefix %s; }", m.Owner.Name, m.Prefix)
	} else {
		p.line("module %s {", m.Name)
		p.ind++
		p.line("namespace %q;", m.NS)
		p.line("prefix %s;", m.Prefix)
	}
	for _, im := range m.Imports {
		p.line("import %s { prefix %s; }", im.Mod.Name, im.Prefix)
	}
	if m.OCX {
		p.line("import openconfig-extensions { prefix ocx; }")
	}
	for _, in := range m.Includes {
		p.line("include %s;", in.Name)
	}
	for _, r := range m.Revs {
		p.line("revision %s;", r)
	}
	if !m.Sub {
		p.line("feature fz0; feature fz1; feature fz2; feature fz3; feature fz4;")
	}
	for _, id := range m.Idents {
		if len(id.Bases) == 0 {
			p.line("identity %s;", id.Name)
		} else {
			p.line("identity %s {", id.Name)
			for _, b := range id.Bases {
				p.line("  base %s;", b)
			}
			p.line("}")
		}
	}
	p.scope(m.Body)
	for _, a := range m.Augments {
		p.line("augment %q {", pathString(a.Path))
		p.ind++
		for _, f := range a.IfF {
			p.line("if-feature %s;", f)
		}
		p.scope(a.Body)
		p.ind--
		p.line("}")
	}
	p.ind--
	p.line("}")
	return p.b.String()
}

func (p *printer) typ(t *TypeRef) {
	switch t.Name {
	case "enumeration":
		p.line("type enumeration {")
		for k, e := range t.Enums {
			if t.EnumVals != nil && t.EnumVals[k] != "" {
				p.line("  enum %s { value %s; }", e, t.EnumVals[k])
			} else {
				p.line("  enum %s;", e)
			}
		}
		p.line("}")
		return
	case "bits":
		p.line("type bits {")
		for k, e := range t.Bits {
			if t.BitPos != nil && t.BitPos[k] != "" {
				p.line("  bit %s { position %s; }", e, t.BitPos[k])
			} else {
				p.line("  bit %s;", e)
			}
		}
		p.line("}")
		return
	case "leafref":
		p.line("type leafref { path %q; }", t.Path)
		return
	case "decimal64":
		p.line("type decimal64 { fraction-digits %d; }", t.Frac)
		return
	case "union":
		p.line("type union {")
		p.ind++
		for _, m := range t.Members {
			p.typ(m)
		}
		p.ind--
		p.line("}")
		return
	}
	if len(t.Patterns) == 0 && t.Range == "" && len(t.Posix) == 0 && t.Length == "" {
		p.line("type %s;", t.Name)
		return
	}
	p.line("type %s {", t.Name)
	if t.Range != "" {
		p.line("  range %q;", t.Range)
	}
	if t.Length != "" {
		p.line("  length %q;", t.Length)
	}
	for _, pt := range t.Patterns {
		p.line("  pattern %q;", pt)
	}
	for _, pt := range t.Posix {
		p.line("  ocx:posix-pattern %q;", pt)
	}
	p.line("}")
}

func (p *printer) scope(s *Scope) {
	if s == nil {
		return
	}
	for _, td := range s.Typedefs {
		p.line("typedef %s {", td.Name)
		p.ind++
		p.typ(td.Type)
		if td.Units != "" || td.UnitsSet {
			p.line("units %q;", td.Units)
		}
		if td.HasDef {
			p.line("default %q;", td.Default)
		}
		p.ind--
		p.line("}")
	}
	for _, g := range s.Groupings {
		p.line("grouping %s {", g.Name)
		p.ind++
		p.scope(g.Body)
		p.ind--
		p.line("}")
	}
	for _, it := range s.Items {
		if it.Node == nil {
			if len(it.UsesIfF) == 0 {
				p.line("uses %s;", it.Uses)
			} else {
				p.line("uses %s {", it.Uses)
				for _, f := range it.UsesIfF {
					p.line("  if-feature %s;", f)
				}
				p.line("}")
			}
			continue
		}
		p.node(it.Node)
	}
}

func (p *printer) node(n *Node) {
	p.line("%s %s {", n.Kind, n.Name)
	p.ind++
	if n.Key != "" {
		p.line("key %q;", n.Key)
	}
	for _, f := range n.IfF {
		p.line("if-feature %s;", f)
	}
	if n.Config != nil {
		p.line("config %v;", *n.Config)
	}
	if n.Type != nil {
		p.typ(n.Type)
	}
	for _, d := range n.Default {
		p.line("default %q;", d)
	}
	if n.Mandatory != nil {
		p.line("mandatory %v;", *n.Mandatory)
	}
	if n.Min != nil {
		p.line("min-elements %d;", *n.Min)
	}
	if n.Max != nil {
		p.line("max-elements %d;", *n.Max)
	}
	if n.OrdUser {
		p.line("ordered-by user;")
	}
	if n.Input != nil {
		p.line("input {")
		p.ind++
		p.scope(n.Input.Body)
		p.ind--
		p.line("}")
	}
	if n.Output != nil {
		p.line("output {")
		p.ind++
		p.scope(n.Output.Body)
		p.ind--
		p.line("}")
	}
	p.scope(n.Body)
	p.ind--
	p.line("}")
}

// ---------- reference resolver ----------

type TSum struct {
	Kind     string
	Units    string
	Default  string
	HasDef   bool
	Patterns []string
	Posix    []string         // accumulated posix-patterns
	Range    string           // the range restriction written on the built-in at the bottom of the chain ("" = none)
	Enums    []string         // members of the enumeration the chain ends in
	EnumMap  map[string]int64 // their values by RFC 7950 9.6.4.2 (nil when the chain does not end in an enumeration)
	BitMap   map[string]int64 // positions of the bits by 9.7.4.2 (nil when the chain does not end in bits)
	Length   string           // the length restriction written at the bottom of the chain ("" = none)
	Path     string           // leafref path
	Members  []string         // base kinds of the union members, in written order
	Frac     int              // fraction-digits
	Err      string
}

type X struct {
	IfF        []string // expected Extra["if-feature"]: the node's own, then those of every uses and augment that placed it as one of their top-level nodes
	ViaUses    bool     // placed (directly or through an ancestor) by a uses expansion
	ViaAugment bool     // placed (directly or through an ancestor) by an augment
	DefFile    *Mod     // file whose text defines the node
	T          *TSum
	Name       string
	Kind       string
	Parent     *X
	Children   map[string]*X
	In, Out    *X
	Placing    *Mod // module whose text placed the node
	Config     *bool
	Src        *Node
	Implicit   bool
}

func (x *X) Path() string {
	if x.Parent == nil {
		return "/" + x.Name
	}
	return x.Parent.Path() + "/" + x.Name
}

func (x *X) ReadOnly() bool {
	for n := x; n != nil; n = n.Parent {
		if n.Kind == "output" {
			return true
		}
		if n.Config != nil {
			return !*n.Config
		}
	}
	return false
}

func (x *X) Sorted() []*X {
	var ks []string
	for k := range x.Children {
		ks = append(ks, k)
	}
	sort.Strings(ks)
	var out []*X
	for _, k := range ks {
		out = append(out, x.Children[k])
	}
	return out
}

type RefError struct{ Class, Detail string }

func (e *RefError) Error() string { return e.Class + ": " + e.Detail }

type Resolver struct {
	viaUses    int
	viaAugment int
	curFile    *Mod
	Mods       []*Mod // all modules and submodules
	Roots      map[*Mod]*X
	Errs       []*RefError
}

func (r *Resolver) errf(class, f string, a ...interface{}) {
	r.Errs = append(r.Errs, &RefError{class, fmt.Sprintf(f, a...)})
}

func splitQ(q string) (string, string) {
	if i := strings.Index(q, ":"); i >= 0 {
		return q[:i], q[i+1:]
	}
	return "", q
}

func (f *Mod) importByPrefix(p string) *Mod {
	for _, im := range f.Imports {
		if im.Prefix == p {
			return im.Mod
		}
	}
	return nil
}

func subsTransitive(f *Mod, seen map[*Mod]bool, out *[]*Mod) {
	for _, s := range f.Includes {
		if seen[s] {
			continue
		}
		seen[s] = true
		*out = append(*out, s)
		subsTransitive(s, seen, out)
	}
}

func (r *Resolver) findGrouping(s *Scope, q string) *Grouping {
	p, name := splitQ(q)
	f := s.File
	if p == "" || p == f.Prefix {
		for sc := s; sc != nil; sc = sc.Parent {
			for _, g := range sc.Groupings {
				if g.Name == name {
					return g
				}
			}
		}
		var subs []*Mod
		subsTransitive(f, map[*Mod]bool{}, &subs)
		for _, sm := range subs {
			for _, g := range sm.Body.Groupings {
				if g.Name == name {
					return g
				}
			}
		}
		// a submodule sees the module it belongs to and all of that module's submodules
		// (RFC 7950 5.1)
		if f.Sub && f.Owner != nil {
			for _, g := range f.Owner.Body.Groupings {
				if g.Name == name {
					return g
				}
			}
			subs = nil
			subsTransitive(f.Owner, map[*Mod]bool{}, &subs)
			for _, sm := range subs {
				for _, g := range sm.Body.Groupings {
					if g.Name == name {
						return g
					}
				}
			}
		}
		return nil
	}
	im := f.importByPrefix(p)
	if im == nil {
		return nil
	}
	for _, g := range im.Body.Groupings {
		if g.Name == name {
			return g
		}
	}
	var subs []*Mod
	subsTransitive(im, map[*Mod]bool{}, &subs)
	for _, sm := range subs {
		for _, g := range sm.Body.Groupings {
			if g.Name == name {
				return g
			}
		}
	}
	return nil
}

func newX(name, kind string, parent *X, placing *Mod, src *Node) *X {
	x := &X{Name: name, Kind: kind, Parent: parent, Placing: placing, Src: src}
	switch kind {
	case "leaf", "leaf-list":
	default:
		x.Children = map[string]*X{}
	}
	if src != nil {
		x.Config = src.Config
	}
	return x
}

func (r *Resolver) add(parent *X, c *X) {
	if parent.Children == nil {
		r.errf("childless-parent", "%s", parent.Path())
		return
	}
	if parent.Children[c.Name] != nil {
		r.errf("duplicate-child", "%s in %s", c.Name, parent.Path())
		return
	}
	c.Parent = parent
	parent.Children[c.Name] = c
}

func (r *Resolver) instantiate(s *Scope, under *X, placing *Mod, depth int) {
	if s == nil {
		return
	}
	if depth > 50 {
		r.errf("cycle", "uses depth")
		return
	}
	for _, it := range s.Items {
		if it.Node == nil {
			g := r.findGrouping(s, it.Uses)
			if g == nil {
				r.errf("unknown-grouping", "%s", it.Uses)
				continue
			}
			before := map[string]bool{}
			for k := range under.Children {
				before[k] = true
			}
			r.viaUses++
			r.instantiate(g.Body, under, placing, depth+1)
			r.viaUses--
			for k, c := range under.Children {
				if !before[k] {
					c.IfF = append(c.IfF, it.UsesIfF...)
				}
			}
			continue
		}
		r.curFile = s.File
		r.instNode(it.Node, under, placing, depth)
	}
}

var builtins = map[string]bool{"string": true, "int8": true, "uint32": true, "boolean": true, "empty": true, "int16": true, "uint8": true, "binary": true, "enumeration": true, "bits": true, "leafref": true, "union": true, "decimal64": true}

func (r *Resolver) findTypedef(s *Scope, q string) *Typedef {
	p, name := splitQ(q)
	f := s.File
	if p == "" || p == f.Prefix {
		for sc := s; sc != nil; sc = sc.Parent {
			for _, td := range sc.Typedefs {
				if td.Name == name {
					return td
				}
			}
		}
		for _, sm := range f.Includes {
			for _, td := range sm.Body.Typedefs {
				if td.Name == name {
					return td
				}
			}
		}
		// a submodule sees the module it belongs to and that module's submodules
		if f.Sub && f.Owner != nil {
			for _, td := range f.Owner.Body.Typedefs {
				if td.Name == name {
					return td
				}
			}
			for _, sm := range f.Owner.Includes {
				for _, td := range sm.Body.Typedefs {
					if td.Name == name {
						return td
					}
				}
			}
		}
		return nil
	}
	im := f.importByPrefix(p)
	if im == nil {
		return nil
	}
	for _, td := range im.Body.Typedefs {
		if td.Name == name {
			return td
		}
	}
	for _, sm := range im.Includes {
		for _, td := range sm.Body.Typedefs {
			if td.Name == name {
				return td
			}
		}
	}
	return nil
}

// assign gives every member its written value, or zero for the first member and otherwise one
// more than the highest value of the members before it (RFC 7950 9.6.4.2, 9.7.4.2). The
// generator writes only values for which this never overflows and never collides.
func assign(names, written []string) map[string]int64 {
	out := map[string]int64{}
	first, max := true, int64(0)
	for k, n := range names {
		var v int64
		if written != nil && written[k] != "" {
			v, _ = strconv.ParseInt(written[k], 10, 64)
		} else if !first {
			v = max + 1
		}
		if first || v > max {
			max = v
		}
		first = false
		out[n] = v
	}
	return out
}

// ResolveType computes the summary of a type reference.
func (r *Resolver) ResolveType(t *TypeRef, depth int) *TSum {
	if depth > 40 {
		return &TSum{Err: "cycle"}
	}
	var base *TSum
	if builtins[t.Name] {
		base = &TSum{Kind: t.Name, Enums: append([]string{}, t.Enums...), Path: t.Path, Frac: t.Frac, Range: t.Range, Length: t.Length}
		if t.Name == "enumeration" {
			base.EnumMap = assign(t.Enums, t.EnumVals)
		}
		if t.Name == "bits" {
			base.BitMap = assign(t.Bits, t.BitPos)
		}
		for _, m := range t.Members {
			ms := r.ResolveType(m, depth+1)
			if ms.Err != "" {
				return ms
			}
			base.Members = append(base.Members, ms.Kind)
		}
	} else {
		td := r.findTypedef(t.Scope, t.Name)
		if td == nil {
			return &TSum{Err: "unknown-type " + t.Name}
		}
		b := r.ResolveType(td.Type, depth+1)
		if b.Err != "" {
			return b
		}
		c := *b
		c.Patterns = append([]string{}, b.Patterns...)
		c.Posix = append([]string{}, b.Posix...)
		if td.Units != "" || td.UnitsSet {
			c.Units = td.Units
		}
		if td.HasDef {
			c.HasDef = true
			c.Default = td.Default
		}
		base = &c
	}
	out := *base
	out.Patterns = append([]string{}, base.Patterns...)
	out.Posix = append([]string{}, base.Posix...)
	for _, p := range t.Posix {
		dup := false
		for _, q := range out.Posix {
			if q == p {
				dup = true
			}
		}
		if !dup {
			out.Posix = append(out.Posix, p)
		}
	}
	for _, p := range t.Patterns {
		dup := false
		for _, q := range out.Patterns {
			if q == p {
				dup = true
			}
		}
		if !dup {
			out.Patterns = append(out.Patterns, p)
		}
	}
	return &out
}

func (r *Resolver) instNode(n *Node, under *X, placing *Mod, depth int) {
	x := newX(n.Name, n.Kind, under, placing, n)
	x.DefFile = r.curFile
	x.IfF = append([]string{}, n.IfF...)
	x.ViaUses = r.viaUses > 0 || (under != nil && under.ViaUses)
	x.ViaAugment = r.viaAugment > 0 || (under != nil && under.ViaAugment)
	if n.Type != nil {
		x.T = r.ResolveType(n.Type, 0)
		if x.T.Err != "" {
			r.errf("type", "%s", x.T.Err)
		}
	}
	r.add(under, x)
	if n.Input != nil {
		x.In = newX("input", "input", x, placing, n.Input)
		x.In.DefFile = x.DefFile
		r.instantiate(n.Input.Body, x.In, placing, depth)
	}
	if n.Output != nil {
		x.Out = newX("output", "output", x, placing, n.Output)
		x.Out.DefFile = x.DefFile
		r.instantiate(n.Output.Body, x.Out, placing, depth)
	}
	r.instantiate(n.Body, x, placing, depth)
}

func (r *Resolver) find(from *Mod, path []Step) *X {
	if len(path) == 0 {
		return nil
	}
	var root *Mod
	p := path[0].Prefix
	if p == "" || p == from.Prefix {
		root = from.Module()
	} else {
		root = from.importByPrefix(p)
	}
	if root == nil {
		return nil
	}
	x := r.Roots[root]
	for _, st := range path {
		if x == nil {
			return nil
		}
		if x.Kind == "rpc" || x.Kind == "action" {
			switch st.Name {
			case "input":
				if x.In == nil {
					x.In = newX("input", "input", x, x.Placing, nil)
				}
				x = x.In
			case "output":
				if x.Out == nil {
					x.Out = newX("output", "output", x, x.Placing, nil)
				}
				x = x.Out
			default:
				return nil
			}
			continue
		}
		x = x.Children[st.Name]
	}
	return x
}

func canHaveChildren(kind string) bool {
	switch kind {
	case "container", "list", "choice", "case", "input", "output", "notification":
		return true
	}
	return false
}

func (r *Resolver) Resolve() {
	r.Roots = map[*Mod]*X{}
	for _, m := range r.Mods {
		if m.Sub {
			continue
		}
		root := newX(m.Name, "module", nil, m, nil)
		r.Roots[m] = root
		r.instantiate(m.Body, root, m, 0)
		var subs []*Mod
		subsTransitive(m, map[*Mod]bool{}, &subs)
		for _, s := range subs {
			r.instantiate(s.Body, root, m, 0)
		}
	}
	// every typedef is resolved, used or not (goyang resolves the whole dictionary)
	var walkT func(sc *Scope)
	walkT = func(sc *Scope) {
		if sc == nil {
			return
		}
		for _, td := range sc.Typedefs {
			if k := r.ResolveType(td.Type, 0); k.Err != "" {
				r.errf("type", "typedef %s: %s", td.Name, k.Err)
			}
		}
		for _, gr := range sc.Groupings {
			walkT(gr.Body)
		}
		for _, it := range sc.Items {
			if it.Node != nil {
				walkT(it.Node.Body)
				if it.Node.Input != nil {
					walkT(it.Node.Input.Body)
				}
				if it.Node.Output != nil {
					walkT(it.Node.Output.Body)
				}
			}
		}
	}
	for _, m := range r.Mods {
		walkT(m.Body)
		for _, a := range m.Augments {
			walkT(a.Body)
		}
	}
	// every grouping is also expanded on its own (goyang does so to collect errors)
	var walkG func(sc *Scope)
	walkG = func(sc *Scope) {
		if sc == nil {
			return
		}
		for _, gr := range sc.Groupings {
			tmp := newX(gr.Name, "grouping", nil, sc.File.Module(), nil)
			r.instantiate(gr.Body, tmp, sc.File.Module(), 0)
			walkG(gr.Body)
		}
		for _, it := range sc.Items {
			if it.Node != nil {
				walkG(it.Node.Body)
				if it.Node.Input != nil {
					walkG(it.Node.Input.Body)
				}
				if it.Node.Output != nil {
					walkG(it.Node.Output.Body)
				}
			}
		}
	}
	for _, m := range r.Mods {
		walkG(m.Body)
	}
	// augments
	type aug struct {
		a    *Augment
		done bool
	}
	var augs []*aug
	for _, m := range r.Mods {
		for _, a := range m.Augments {
			augs = append(augs, &aug{a: a})
		}
	}
	for {
		progress := false
		for _, a := range augs {
			if a.done {
				continue
			}
			t := r.find(a.a.File, a.a.Path)
			if t == nil {
				continue
			}
			a.done = true
			progress = true
			if !canHaveChildren(t.Kind) {
				r.errf("augment-target-childless", "%s", pathString(a.a.Path))
				continue
			}
			beforeA := map[string]bool{}
			for k := range t.Children {
				beforeA[k] = true
			}
			r.viaAugment++
			r.instantiate(a.a.Body, t, a.a.File.Module(), 0)
			r.viaAugment--
			for k, c := range t.Children {
				if !beforeA[k] {
					c.IfF = append(c.IfF, a.a.IfF...)
				}
			}
		}
		if !progress {
			break
		}
	}
	for _, a := range augs {
		if !a.done {
			r.errf("augment-target-missing", "%s", pathString(a.a.Path))
		}
	}
	// implicit cases
	for _, root := range r.Roots {
		fixChoice(root)
	}
}

func fixChoice(x *X) {
	if x.Kind == "choice" {
		for k, c := range x.Children {
			if c.Kind != "case" {
				ic := newX(c.Name, "case", x, c.Placing, nil)
				ic.Implicit = true
				ic.DefFile = c.DefFile
				ic.Children[c.Name] = c
				c.Parent = ic
				x.Children[k] = ic
			}
		}
	}
	for _, c := range x.Children {
		fixChoice(c)
	}
	if x.In != nil {
		fixChoice(x.In)
	}
	if x.Out != nil {
		fixChoice(x.Out)
	}
}

// OCXText is the text of the extension module that posix-pattern statements refer to; a
// set with Gen.Posix loads it next to the generated modules.
const OCXText = `module openconfig-extensions {
  namespace "urn:openconfig-extensions";
  prefix oc-ext;
  extension posix-pattern { argument pattern; }
}
`
