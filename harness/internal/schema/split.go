package schema

import "math/rand"

// topRefs returns the top-level definitions (typedefs, groupings) of module m referenced
// directly from within scope/items.
type topDef struct {
	td *Typedef
	gr *Grouping
}

func collectRefs(r *Resolver, m *Mod, sc *Scope, out map[interface{}]bool) {
	if sc == nil {
		return
	}
	chkType := func(t *TypeRef) {
		if t == nil || builtins[t.Name] {
			return
		}
		if td := r.findTypedef(t.Scope, t.Name); td != nil && td.Scope == m.Body {
			out[td] = true
		}
	}
	for _, td := range sc.Typedefs {
		chkType(td.Type)
	}
	for _, g := range sc.Groupings {
		collectRefs(r, m, g.Body, out)
	}
	for _, it := range sc.Items {
		if it.Node == nil {
			if g := r.findGrouping(sc, it.Uses); g != nil && g.Body.Parent == m.Body {
				out[g] = true
			}
			continue
		}
		n := it.Node
		chkType(n.Type)
		collectRefs(r, m, n.Body, out)
		if n.Input != nil {
			collectRefs(r, m, n.Input.Body, out)
		}
		if n.Output != nil {
			collectRefs(r, m, n.Output.Body, out)
		}
	}
}

func setFile(sc *Scope, f *Mod) {
	if sc == nil {
		return
	}
	sc.File = f
	for _, g := range sc.Groupings {
		setFile(g.Body, f)
	}
	for _, it := range sc.Items {
		if it.Node != nil {
			setFile(it.Node.Body, f)
			if it.Node.Input != nil {
				setFile(it.Node.Input.Body, f)
			}
			if it.Node.Output != nil {
				setFile(it.Node.Output.Body, f)
			}
		}
	}
}

// NestedOnlyIncludes counts the includes that SplitOpt left to a submodule (for the evidence).
var NestedOnlyIncludes int

// Split moves a random, dependency-closed part of m's top-level definitions into k submodules.
// Submodule i includes submodules 1..i-1. Returns the new submodules.
func Split(rng *rand.Rand, m *Mod, k int) []*Mod { return SplitOpt(rng, m, k, false) }

// SplitOpt is Split with one more freedom: with nestedOnly (for modules that nobody imports)
// and a partition of the second kind, the module leaves out the include of a submodule that
// another submodule includes, when nothing that stays in the module refers to its definitions
// (nested includes as YANG 1.0 has them). Its data nodes reach the module through the
// submodule that includes it.
func SplitOpt(rng *rand.Rand, m *Mod, k int, nestedOnly bool) []*Mod {
	needs0 := map[int]bool{} // parts that definitions staying in the module refer to
	r := &Resolver{}
	part := map[interface{}]int{}
	needs := map[int]map[int]bool{} // part -> parts whose definitions it references
	// Half of the splits are free partitions: a submodule sees the module it belongs to and
	// all of that module's submodules (RFC 7950 5.1), so any definition may go anywhere and
	// no include between submodules is needed. The other half keeps every reference inside
	// the submodule or its own includes (all that YANG 1.0 allows).
	free := rng.Intn(2) == 0
	assign := func(def interface{}, refs map[interface{}]bool) {
		if free {
			part[def] = rng.Intn(k + 1)
			return
		}
		lo := 0
		zero := false
		for d := range refs {
			if d == def {
				continue
			}
			p, ok := part[d]
			if !ok || p == 0 {
				zero = true
			}
			if p > lo {
				lo = p
			}
		}
		if zero || rng.Intn(3) == 0 {
			part[def] = 0
			for d := range refs {
				if p := part[d]; d != def && p > 0 {
					needs0[p] = true
				}
			}
			return
		}
		if lo == 0 {
			lo = 1
		}
		part[def] = lo + rng.Intn(k-lo+1)
		// remember which other parts this part needs to see
		for d := range refs {
			if p := part[d]; d != def && p > 0 && p != part[def] {
				if needs[part[def]] == nil {
					needs[part[def]] = map[int]bool{}
				}
				needs[part[def]][p] = true
			}
		}
	}
	// definitions in creation order: typedefs then groupings (a typedef may reference earlier typedefs;
	// a grouping may reference typedefs and earlier groupings)
	for _, td := range m.Body.Typedefs {
		refs := map[interface{}]bool{}
		if !builtins[td.Type.Name] {
			if t2 := r.findTypedef(td.Type.Scope, td.Type.Name); t2 != nil && t2.Scope == m.Body {
				refs[t2] = true
			}
		}
		assign(td, refs)
	}
	for _, g := range m.Body.Groupings {
		refs := map[interface{}]bool{}
		collectRefs(r, m, g.Body, refs)
		assign(g, refs)
	}
	itemPart := make([]int, len(m.Body.Items))
	for i, it := range m.Body.Items {
		refs := map[interface{}]bool{}
		tmp := &Scope{Parent: m.Body, File: m, Items: []*Item{it}}
		// keep the item's scope parent as is for lookups
		if it.Node == nil {
			if g := r.findGrouping(m.Body, it.Uses); g != nil && g.Body.Parent == m.Body {
				refs[g] = true
			}
		} else {
			_ = tmp
			n := it.Node
			if n.Type != nil && !builtins[n.Type.Name] {
				if td := r.findTypedef(n.Type.Scope, n.Type.Name); td != nil && td.Scope == m.Body {
					refs[td] = true
				}
			}
			collectRefs(r, m, n.Body, refs)
			if n.Input != nil {
				collectRefs(r, m, n.Input.Body, refs)
			}
			if n.Output != nil {
				collectRefs(r, m, n.Output.Body, refs)
			}
		}
		key := it
		assign(key, refs)
		itemPart[i] = part[key]
	}
	// the augments stay in the module: what their bodies refer to must be visible there
	for _, a := range m.Augments {
		refs := map[interface{}]bool{}
		collectRefs(r, m, a.Body, refs)
		for d := range refs {
			if p := part[d]; p > 0 {
				needs0[p] = true
			}
		}
	}
	subs := make([]*Mod, k+1)
	for i := 1; i <= k; i++ {
		s := &Mod{Sub: true, Name: m.Name + "sub" + string(rune('0'+i)), Owner: m, Prefix: m.Prefix}
		s.Body = &Scope{File: s}
		for _, im := range m.Imports {
			s.Imports = append(s.Imports, &Import{Mod: im.Mod, Prefix: im.Prefix})
		}
		// A submodule includes the submodules whose definitions it references, and half of
		// the other earlier ones; the order of the include statements is random. (Including
		// every earlier submodule in order, as an earlier version did, never produces an
		// include list in which an already visited submodule stands before a new one.)
		for j := 1; j < i; j++ {
			if needs[i][j] || rng.Intn(2) == 0 {
				s.Includes = append(s.Includes, subs[j])
			}
		}
		rng.Shuffle(len(s.Includes), func(a, b int) { s.Includes[a], s.Includes[b] = s.Includes[b], s.Includes[a] })
		subs[i] = s
	}
	var keepT []*Typedef
	for _, td := range m.Body.Typedefs {
		if p := part[td]; p > 0 {
			td.Scope = subs[p].Body
			td.Type.Scope = subs[p].Body
			subs[p].Body.Typedefs = append(subs[p].Body.Typedefs, td)
		} else {
			keepT = append(keepT, td)
		}
	}
	m.Body.Typedefs = keepT
	var keepG []*Grouping
	for _, g := range m.Body.Groupings {
		if p := part[g]; p > 0 {
			g.Body.Parent = subs[p].Body
			setFile(g.Body, subs[p])
			subs[p].Body.Groupings = append(subs[p].Body.Groupings, g)
		} else {
			keepG = append(keepG, g)
		}
	}
	m.Body.Groupings = keepG
	var keepI []*Item
	for i, it := range m.Body.Items {
		if p := itemPart[i]; p > 0 {
			if it.Node != nil {
				if it.Node.Body != nil {
					it.Node.Body.Parent = subs[p].Body
					setFile(it.Node.Body, subs[p])
				}
				if it.Node.Type != nil {
					it.Node.Type.Scope = subs[p].Body
				}
				for _, io := range []*Node{it.Node.Input, it.Node.Output} {
					if io != nil && io.Body != nil {
						io.Body.Parent = subs[p].Body
						setFile(io.Body, subs[p])
					}
				}
			}
			subs[p].Body.Items = append(subs[p].Body.Items, it)
		} else {
			keepI = append(keepI, it)
		}
	}
	m.Body.Items = keepI
	// Identities: a base is looked up in the module as a whole, so in a free partition an
	// identity may stand in any file of it.
	if free {
		var keepID []*Ident
		for _, id := range m.Idents {
			if p := rng.Intn(k + 1); p > 0 {
				subs[p].Idents = append(subs[p].Idents, id)
			} else {
				keepID = append(keepID, id)
			}
		}
		m.Idents = keepID
	}
	var out []*Mod
	for i := 1; i <= k; i++ {
		nested := false
		for j := i + 1; j <= k; j++ {
			for _, in := range subs[j].Includes {
				if in == subs[i] {
					nested = true
				}
			}
		}
		if nestedOnly && !free && nested && !needs0[i] && rng.Intn(2) == 0 {
			NestedOnlyIncludes++
		} else {
			m.Includes = append(m.Includes, subs[i])
		}
		out = append(out, subs[i])
	}
	rng.Shuffle(len(m.Includes), func(a, b int) { m.Includes[a], m.Includes[b] = m.Includes[b], m.Includes[a] })
	return out
}
