// Package w10 is the workload and monitor of C10 (range and length restrictions).
package w10

import (
	"fmt"
	"math/big"
	"strings"

	"github.com/openconfig/goyang/pkg/yang"
	"verif/internal/exact"
	"verif/internal/job"
	"verif/internal/prng"
)

func bi(s string) *big.Int {
	b, _ := new(big.Int).SetString(strings.Replace(s, "-0", "0", 1), 10)
	return b
}

func parseTok(s string) *big.Int {
	if s == "-0" {
		return big.NewInt(0)
	}
	b, _ := new(big.Int).SetString(s, 10)
	return b
}

var intGrid = []string{"-9223372036854775809", "-9223372036854775808", "-9223372036854775807", "-32769", "-32768", "-129", "-128", "-127", "-1", "-0", "0", "1", "2", "126", "127", "128", "254", "255", "256", "65535", "65536", "4294967295", "4294967296", "9223372036854775807", "9223372036854775808", "18446744073709551614", "18446744073709551615"}

func toIv(r yang.YangRange, fd int) []exact.Iv {
	var out []exact.Iv
	for _, p := range r {
		lo := new(big.Int).SetUint64(p.Min.Value)
		if p.Min.Negative {
			lo.Neg(lo)
		}
		hi := new(big.Int).SetUint64(p.Max.Value)
		if p.Max.Negative {
			hi.Neg(hi)
		}
		out = append(out, exact.Iv{Lo: lo, Hi: hi})
	}
	return out
}

func ivString(iv []exact.Iv) string {
	var p []string
	for _, x := range iv {
		p = append(p, x.Lo.String()+".."+x.Hi.String())
	}
	return strings.Join(p, "|")
}

// presentation checks "sorted, disjoint and coalesced" on a result, independently of the reference.
func presentation(iv []exact.Iv) string {
	one := big.NewInt(1)
	for i, x := range iv {
		if x.Lo.Cmp(x.Hi) > 0 {
			return "part with bounds out of order"
		}
		if i > 0 {
			prev := iv[i-1]
			if x.Lo.Cmp(prev.Hi) <= 0 {
				return "parts overlap or are unsorted"
			}
			if x.Lo.Cmp(new(big.Int).Add(prev.Hi, one)) == 0 {
				return "adjacent parts not coalesced"
			}
		}
	}
	return ""
}

type part struct {
	text   string
	lo, hi *big.Int
}

func parts() []part {
	var ps []part
	for _, a := range intGrid {
		ps = append(ps, part{a, parseTok(a), parseTok(a)})
		for _, b := range intGrid {
			ps = append(ps, part{a + ".." + b, parseTok(a), parseTok(b)})
		}
	}
	return ps
}

var parents = map[string]yang.YangRange{"int8": yang.Int8Range, "int16": yang.Int16Range, "int32": yang.Int32Range, "int64": yang.Int64Range, "uint8": yang.Uint8Range, "uint16": yang.Uint16Range, "uint32": yang.Uint32Range, "uint64": yang.Uint64Range}

var maxU64 = new(big.Int).SetUint64(1<<64 - 1)

// checkInt judges one integer restriction string given as parts.
func checkInt(s *job.Sink, j *job.Job, idx int64, ps []part) {
	var texts []string
	var ivs []exact.Iv
	outOfOrder, tooBig, negZero := false, false, false
	for _, p := range ps {
		texts = append(texts, p.text)
		ivs = append(ivs, exact.Iv{Lo: p.lo, Hi: p.hi})
		if p.lo.Cmp(p.hi) > 0 {
			outOfOrder = true
		}
		if p.lo.CmpAbs(maxU64) > 0 || p.hi.CmpAbs(maxU64) > 0 {
			tooBig = true
		}
		if strings.Contains(p.text, "-0") {
			negZero = true
		}
	}
	str := strings.Join(texts, "|")
	rfcOrdered := true
	for i := 1; i < len(ivs); i++ {
		if ivs[i].Lo.Cmp(ivs[i-1].Hi) <= 0 {
			rfcOrdered = false
		}
	}
	want := exact.Coalesce(ivs)
	facts := map[string]any{"mentions_negative_zero": negZero, "parts_overlap_or_unsorted": !rfcOrdered, "touches_uint64_max": strings.Contains(str, "18446744073709551615")}
	viol := func(class, detail string) {
		s.Violation(idx, j.CaseID(idx), "C10.interval", class, detail, map[string]string{"restriction": str}, facts)
	}
	s.Count("restrictions", 1)
	if len(ps) > 1 {
		s.Count("nontrivial", 1)
	}
	got, err := yang.ParseRangesInt(str)
	switch {
	case outOfOrder || tooBig:
		if err == nil {
			viol("accepts-invalid", fmt.Sprintf("%q accepted as %v", str, got))
		}
		return
	case !rfcOrdered:
		// overlapping or unsorted parts: rejection or the union are both acceptable
		if err != nil {
			return
		}
	default:
		if err != nil {
			viol("rejects-valid", fmt.Sprintf("%q: %v", str, err))
			return
		}
	}
	g := toIv(got, 0)
	if msg := presentation(g); msg != "" {
		viol("presentation", fmt.Sprintf("%q -> %v: %s", str, got, msg))
		return
	}
	if !exact.Equal(g, want) {
		viol("wrong-set", fmt.Sprintf("%q -> %v, written set %s", str, got, ivString(want)))
		return
	}
	for pn, pr := range parents {
		w := exact.Subset(want, toIv(pr, 0))
		s.Count("subset_checks", 1)
		if gc := pr.Contains(got); gc != w {
			viol("subset-test", fmt.Sprintf("%q within %s: Contains says %v, exact %v", str, pn, gc, w))
			return
		}
	}
}

// Grid: all one- and two-part integer restrictions over the grid (first part selects the shard).
func Grid(j *job.Job, s *job.Sink) {
	ps := parts()
	for i, a := range ps {
		if i%j.Shards != j.Shard {
			continue
		}
		s.Current(int64(i), map[string]string{"first_part": a.text})
		checkInt(s, j, int64(i), []part{a})
		for _, b := range ps {
			checkInt(s, j, int64(i), []part{a, b})
		}
	}
}

// Chains: typedef chains through modules: each level's restriction is evaluated by the
// reference against the level below; goyang's Entry.Type.Range / Length and Process errors
// are compared. Covers min/max, lengths, decimal64 at every fraction-digits.
func Chains(j *job.Job, s *job.Sink) {
	types := []string{"int8", "int16", "int32", "int64", "uint8", "uint16", "uint32", "uint64", "string", "decimal64"}
	for c := j.Start; c < j.Start+j.Count; c++ {
		r := prng.For(j.Seed, "C10", "chains", c)
		base := types[r.Intn(len(types))]
		fd := 0
		kw := "range"
		var cur []exact.Iv
		unit := big.NewInt(1)
		switch base {
		case "string":
			kw = "length"
			cur = []exact.Iv{{Lo: big.NewInt(0), Hi: new(big.Int).SetUint64(1<<64 - 1)}}
		case "decimal64":
			fd = 1 + r.Intn(18)
			cur = []exact.Iv{{Lo: new(big.Int).Neg(new(big.Int).Lsh(big.NewInt(1), 63)), Hi: new(big.Int).Sub(new(big.Int).Lsh(big.NewInt(1), 63), big.NewInt(1))}}
		default:
			cur = toIv(parents[base], 0)
		}
		_ = unit
		// print a mantissa as a literal at fd
		lit := func(v *big.Int) string {
			neg := v.Sign() < 0
			a := new(big.Int).Abs(v).String()
			if fd > 0 {
				for len(a) <= fd {
					a = "0" + a
				}
				a = a[:len(a)-fd] + "." + a[len(a)-fd:]
			}
			if neg {
				a = "-" + a
			}
			return a
		}
		depth := 1 + r.Intn(3)
		// One chain in six ends in a union of two members of the same parent type, the
		// second carrying the last restriction: the members may compare equal and be
		// merged, but a bad restriction on the second one is an error all the same.
		unionLast, unionParent, unionExtra := false, "", ""
		devLast := false
		devText := ""
		var b strings.Builder
		// One chain in five of depth two and more is spread over modules: the first level lives
		// in module xa, which m imports under the prefix p, and a twin module imports another
		// module, xb, under the same prefix p; xb defines a typedef of the same name that is the
		// unrestricted base type, and the twin restricts p:<that name> to the whole range of
		// the base type, written out. Each p:t0 denotes the typedef of the module imported
		// under p in the file it is written in, so both are judged against their own parent.
		twin := depth >= 2 && r.Intn(5) == 0
		twinName := []string{"a2", "m2"}[r.Intn(2)]
		var xa strings.Builder
		baseSet := cur
		if twin {
			b.WriteString("module m { namespace \"urn:m\"; prefix m; import xa { prefix p; }\n")
		} else {
			b.WriteString("module m { namespace \"urn:m\"; prefix m;\n")
		}
		prevName := base
		expectErr := ""
		var restr []string
		for lvl := 0; lvl < depth; lvl++ {
			// choose 1-3 parts, mostly inside cur
			lo, hi := cur[0].Lo, cur[len(cur)-1].Hi
			span := new(big.Int).Sub(hi, lo)
			pick := func() *big.Int {
				if span.Sign() == 0 {
					return new(big.Int).Set(lo)
				}
				v := new(big.Int).Rand(r, new(big.Int).Add(span, big.NewInt(1)))
				v.Add(v, lo)
				switch r.Intn(8) {
				case 0:
					return new(big.Int).Set(lo)
				case 1:
					return new(big.Int).Set(hi)
				case 2:
					if r.Intn(3) == 0 { // step outside
						return new(big.Int).Add(hi, big.NewInt(1))
					}
				}
				return v
			}
			n := 1 + r.Intn(3)
			var pts []*big.Int
			for i := 0; i < 2*n; i++ {
				pts = append(pts, pick())
			}
			for i := 1; i < len(pts); i++ {
				for k := i; k > 0 && pts[k].Cmp(pts[k-1]) < 0; k-- {
					pts[k], pts[k-1] = pts[k-1], pts[k]
				}
			}
			var ivs []exact.Iv
			var txt []string
			okOrder := true
			for i := 0; i < n; i++ {
				a, z := pts[2*i], pts[2*i+1]
				if i > 0 && a.Cmp(pts[2*i-1]) <= 0 {
					okOrder = false
				}
				ivs = append(ivs, exact.Iv{Lo: a, Hi: z})
				as, zs := lit(a), lit(z)
				if a.Cmp(lo) == 0 && r.Intn(2) == 0 {
					as = "min"
				}
				if z.Cmp(hi) == 0 && r.Intn(2) == 0 {
					zs = "max"
				}
				if a.Cmp(z) == 0 && r.Intn(2) == 0 {
					txt = append(txt, as)
				} else {
					txt = append(txt, as+[]string{"..", " .. "}[r.Intn(2)]+zs)
				}
			}
			str := strings.Join(txt, []string{"|", " | "}[r.Intn(2)])
			restr = append(restr, str)
			if !okOrder {
				// overlapping parts: avoid, regenerate as a single span
				ivs = []exact.Iv{{Lo: pts[0], Hi: pts[len(pts)-1]}}
				str = lit(pts[0]) + ".." + lit(pts[len(pts)-1])
				restr[len(restr)-1] = str
			}
			set := exact.Coalesce(ivs)
			if expectErr == "" && !exact.Subset(set, cur) {
				expectErr = fmt.Sprintf("level %d admits values its parent does not", lvl)
			}
			if expectErr == "" {
				cur = set
			}
			name := fmt.Sprintf("t%d", lvl)
			extra := ""
			if base == "decimal64" && lvl == 0 {
				extra = fmt.Sprintf(" fraction-digits %d;", fd)
			}
			if lvl == depth-1 && r.Intn(6) == 0 {
				// the last restriction sits on the second of two union members of the same
				// parent type (see below) instead of in a typedef of its own
				unionLast, unionParent, unionExtra = true, prevName, extra
			} else if lvl == depth-1 && !twin && r.Intn(6) == 0 {
				// the last restriction arrives through a deviation: the leaf has the parent type,
				// a second module replaces it by the parent type with the restriction. A bad
				// restriction is an error there like anywhere else.
				devLast, unionParent, unionExtra = true, prevName, extra
			} else if twin && lvl == 0 {
				fmt.Fprintf(&xa, "  typedef %s { type %s {%s %s %q; } }\n", name, prevName, extra, kw, str)
			} else {
				fmt.Fprintf(&b, "  typedef %s { type %s {%s %s %q; } }\n", name, prevName, extra, kw, str)
			}
			prevName = name
			if twin && lvl == 0 {
				prevName = "p:" + name
			}
		}
		// One chain in six hangs the leaf's type into a union behind a plain member of the
		// same name: the two members may compare equal (and be merged), but a bad
		// restriction on the second one is an error all the same.
		if devLast {
			plain := "type " + unionParent + ";"
			if unionExtra != "" {
				plain = "type " + unionParent + " {" + unionExtra + " }"
			}
			fmt.Fprintf(&b, "  leaf l { %s }\n}\n", plain)
			dp := unionParent
			if dp != base {
				dp = "m:" + dp // a typedef of module m
			}
			devText = fmt.Sprintf("module d { namespace \"urn:d\"; prefix d; import m { prefix m; }\n  deviation /m:l { deviate replace { type %s {%s %s %q; } } }\n}\n", dp, unionExtra, kw, restr[len(restr)-1])
		} else if unionLast {
			first := "type " + unionParent + ";"
			if unionExtra != "" {
				first = "type " + unionParent + " {" + unionExtra + " }" // a decimal64 member needs its fraction-digits too
			}
			fmt.Fprintf(&b, "  leaf l { type union { %s type %s {%s %s %q; } } }\n}\n", first, unionParent, unionExtra, kw, restr[len(restr)-1])
		} else {
			fmt.Fprintf(&b, "  leaf l { type %s; }\n}\n", prevName)
		}
		text := b.String()
		s.Current(c, map[string]string{"text": text})
		s.Count("chains", 1)
		if depth > 1 {
			s.Count("nontrivial", 1)
		}
		viol := func(class, detail string) {
			s.Violation(c, j.CaseID(c), "C10.chain", class, detail, map[string]string{"text": text}, map[string]any{"base": base, "fraction_digits": fd})
		}
		ms := yang.NewModules()
		if twin {
			fdx := ""
			if base == "decimal64" {
				fdx = fmt.Sprintf(" { fraction-digits %d; }", fd)
			}
			fdr := ""
			if base == "decimal64" {
				fdr = fmt.Sprintf(" fraction-digits %d;", fd)
			}
			_ = fdr
			others := [][2]string{
				{"xa.yang", "module xa { namespace \"urn:xa\"; prefix xa;\n" + xa.String() + "}\n"},
				{"xb.yang", fmt.Sprintf("module xb { namespace \"urn:xb\"; prefix xb;\n  typedef t0 { type %s%s%s }\n}\n", base, fdx, map[bool]string{true: "", false: ";"}[fdx != ""])},
				{twinName + ".yang", fmt.Sprintf("module %s { namespace \"urn:%s\"; prefix %s; import xb { prefix p; }\n  typedef t1 { type p:t0 { %s \"%s..%s\"; } }\n  leaf l2 { type t1; }\n}\n", twinName, twinName, twinName, kw, lit(baseSet[0].Lo), lit(baseSet[len(baseSet)-1].Hi))},
			}
			r.Shuffle(len(others), func(a, b int) { others[a], others[b] = others[b], others[a] })
			at := r.Intn(len(others) + 1)
			bad := false
			for k, o := range others {
				if k == at {
					if err := ms.Parse(text, "m.yang"); err != nil {
						viol("parse", err.Error())
						bad = true
					}
				}
				if err := ms.Parse(o[1], o[0]); err != nil {
					viol("parse", o[0]+": "+err.Error())
					bad = true
				}
			}
			if at == len(others) {
				if err := ms.Parse(text, "m.yang"); err != nil {
					viol("parse", err.Error())
					bad = true
				}
			}
			if bad {
				continue
			}
			s.Count("chains_across_modules_with_a_twin_prefix", 1)
			text += "\n(+ xa, xb, " + twinName + ": " + xa.String() + ")"
		} else if err := ms.Parse(text, "m.yang"); err != nil {
			viol("parse", err.Error())
			continue
		}
		if devLast {
			text += "\n" + devText
			if err := ms.Parse(devText, "d.yang"); err != nil {
				viol("parse", err.Error())
				continue
			}
			s.Count("chains_with_the_last_restriction_in_a_deviation", 1)
		}
		errs := ms.Process()
		switch {
		case expectErr != "" && len(errs) == 0:
			viol("widening-accepted", expectErr+"; restrictions "+strings.Join(restr, " / "))
		case expectErr == "" && len(errs) > 0:
			viol("rejects-valid", fmt.Sprintf("%v; restrictions %s", errs[0], strings.Join(restr, " / ")))
		case expectErr == "" && unionLast:
			s.Count("union_member_chains_accepted", 1)
		case expectErr == "":
			t := yang.ToEntry(ms.Modules["m"]).Dir["l"].Type
			got := t.Range
			if kw == "length" {
				got = t.Length
			}
			g := toIv(got, fd)
			if msg := presentation(g); msg != "" {
				viol("presentation", fmt.Sprintf("%v: %s", got, msg))
			} else if !exact.Equal(g, cur) {
				viol("wrong-set", fmt.Sprintf("resolved %v, written %s (mantissas); restrictions %s", got, ivString(cur), strings.Join(restr, " / ")))
			}
			s.Count("chains_compared", 1)
		default:
			s.Count("chains_rejected_as_required", 1)
			if unionLast {
				s.Count("union_member_chains_rejected_as_required", 1)
			}
		}
		if c%5000 == 0 {
			s.Sample(1, map[string]string{"text": text})
		}
	}
}

// Malformed: clearly malformed restriction strings must be rejected.
var badDecimal = []string{".", "-.", "-. | .", "+.", ". .. .", "1.0..", "..2.5", "a", "1.2.3", "1.0..2.0..3.0", "--1.0", "1e3", "+-1.5", "1,5", "1.5|", "|1.5", "", "|", "1. 5", "- 1.5", "1.5..-", "min..", "0.5..ma x",
	// a sign behind the point, a point too many
	".-5", ".+5", "5.-", "+.-1", "1.-0", "1..2.3.4", "0.5..", "..5"}

// surplus: decimal literals with more fraction digits than the type has, the surplus not all
// zeros (zeros at the very end or not): they denote numbers the type cannot hold.
var surplus = []struct {
	s  string
	fd uint8
}{{"1.2340", 2}, {"1.20340", 3}, {"-0.0010", 2}, {"0.5010", 2}, {"1.234", 2}, {"9.90909090", 1}, {"0.10", 1}, {"1.2340..2", 2}, {"0..5.0011", 3}, {"-1.050|2", 1}}

func Malformed(j *job.Job, s *job.Sink) {
	if j.Shard == 0 {
		for i, c := range surplus {
			s.Count("malformed", 1)
			if c.s == "0.10" {
				// (control: zeros only beyond the precision, this one is fine)
				if _, err := yang.ParseRangesDecimal(c.s, c.fd); err != nil {
					s.Violation(int64(1000+i), j.CaseID(int64(1000+i)), "C10.malformed", "rejects-valid", fmt.Sprintf("ParseRangesDecimal(%q, %d): %v", c.s, c.fd, err), map[string]string{"restriction": c.s}, nil)
				}
				continue
			}
			if got, err := yang.ParseRangesDecimal(c.s, c.fd); err == nil {
				s.Violation(int64(1000+i), j.CaseID(int64(1000+i)), "C10.malformed", "accepts-malformed", fmt.Sprintf("ParseRangesDecimal(%q, %d) = %v: the literal has digits beyond the precision that are not zeros", c.s, c.fd, got), map[string]string{"restriction": c.s}, nil)
			}
			ms := yang.NewModules()
			text := fmt.Sprintf("module m { namespace \"urn:m\"; prefix m; leaf l { type decimal64 { fraction-digits %d; range %q; } } }", c.fd, c.s)
			if err := ms.Parse(text, "m.yang"); err == nil {
				if errs := ms.Process(); len(errs) == 0 {
					s.Violation(int64(1000+i), j.CaseID(int64(1000+i)), "C10.malformed", "schema-accepts-malformed", text, map[string]string{"restriction": c.s}, nil)
				}
			}
		}
	}
	bad := []string{"", "|", "1|", "|1", "..", "1..", "..5", "1..2..3", "a", "1..b", "1.5", "1..2|", "1 2", "--1", "1-2", "1...5", "min..", "..max", "5..1", "1..5|3..2", "1,5", "0x", "1e3",
		// sign forms: at most one sign, directly before the digits
		"+-5..5", "0|+-3", "-+5", "++5", "+", "-", "- 5", "5-", "+-0x10..0", "1..+-2", "-", "1..-", "min..+", "-min", "+max",
		// white space inside a token (around "|" and ".." it is fine, inside a number or a keyword it is not)
		"1 0..2 0", "1. .5", "ma x", "m in..5", "0x1 0", "1\n0", "1\t0..20", "5..1 0", "mi n", "1 ..5| 2 0"}
	for i, str := range bad {
		if i%j.Shards != j.Shard {
			continue
		}
		s.Current(int64(i), map[string]string{"restriction": str})
		s.Count("malformed", 1)
		if got, err := yang.ParseRangesInt(str); err == nil {
			s.Violation(int64(i), j.CaseID(int64(i)), "C10.malformed", "accepts-malformed", fmt.Sprintf("ParseRangesInt(%q) = %v", str, got), map[string]string{"restriction": str}, nil)
		}
		// the same through the decimal parser, with strings that are malformed for decimals too
		// (digitless literals like "." among them; "5." and ".5" are leniency and not judged)
		if i < len(badDecimal) {
			ds := badDecimal[i]
			s.Count("malformed", 1)
			for _, fd := range []uint8{1, 2, 18} {
				if got, err := yang.ParseRangesDecimal(ds, fd); err == nil {
					s.Violation(int64(i), j.CaseID(int64(i)), "C10.malformed", "accepts-malformed", fmt.Sprintf("ParseRangesDecimal(%q, %d) = %v", ds, fd, got), map[string]string{"restriction": ds}, nil)
					break
				}
			}
			dtext := fmt.Sprintf("module m { namespace \"urn:m\"; prefix m; leaf l { type decimal64 { fraction-digits 2; range %q; } } }", ds)
			dms := yang.NewModules()
			if err := dms.Parse(dtext, "m.yang"); err == nil {
				if errs := dms.Process(); len(errs) == 0 {
					s.Violation(int64(i), j.CaseID(int64(i)), "C10.malformed", "schema-accepts-malformed", fmt.Sprintf("range %q accepted on decimal64", ds), map[string]string{"text": dtext}, nil)
				}
			}
		}
		text := fmt.Sprintf("module m { namespace \"urn:m\"; prefix m; leaf l { type int32 { range %q; } } }", str)
		ms := yang.NewModules()
		if err := ms.Parse(text, "m.yang"); err == nil {
			if errs := ms.Process(); len(errs) == 0 {
				s.Violation(int64(i), j.CaseID(int64(i)), "C10.malformed", "schema-accepts-malformed", fmt.Sprintf("range %q accepted on int32", str), map[string]string{"text": text}, nil)
			}
		}
	}
}

// ---- child restrictions against arbitrary parent sets, through the hook accessor ----

func num(v *big.Int, fd int) yang.Number {
	n := yang.Number{Value: new(big.Int).Abs(v).Uint64(), FractionDigits: uint8(fd)}
	if v.Sign() < 0 {
		n.Negative = true
	}
	return n
}

func litAt(v *big.Int, fd int, trim bool) string {
	neg := v.Sign() < 0
	a := new(big.Int).Abs(v).String()
	if fd > 0 {
		for len(a) <= fd {
			a = "0" + a
		}
		a = a[:len(a)-fd] + "." + a[len(a)-fd:]
		if trim {
			a = strings.TrimRight(a, "0")
			if strings.HasSuffix(a, ".") {
				a += "0"
			}
		}
	}
	if neg {
		a = "-" + a
	}
	return a
}

// Child drives YangRange.parseChildRanges (exported for this purpose by the verif hook
// file as VerifParseChildRanges) with generated parent sets - random subsets of the
// built-in ranges, so "arbitrary previously restricted sets" - and child restrictions
// built from the parent's own bounds, their neighbours, min and max.
func Child(j *job.Job, s *job.Sink) {
	one := big.NewInt(1)
	universes := []struct {
		name    string
		lo, hi  *big.Int
		decimal bool
	}{
		{"int8", big.NewInt(-128), big.NewInt(127), false}, {"uint8", big.NewInt(0), big.NewInt(255), false},
		{"int16", big.NewInt(-32768), big.NewInt(32767), false}, {"uint32", big.NewInt(0), big.NewInt(1<<32 - 1), false},
		{"int64", new(big.Int).Neg(new(big.Int).Lsh(one, 63)), new(big.Int).Sub(new(big.Int).Lsh(one, 63), one), false},
		{"uint64", big.NewInt(0), new(big.Int).SetUint64(1<<64 - 1), false},
		{"decimal64", new(big.Int).Neg(new(big.Int).Lsh(one, 63)), new(big.Int).Sub(new(big.Int).Lsh(one, 63), one), true},
	}
	for c := j.Start; c < j.Start+j.Count; c++ {
		r := prng.For(j.Seed, "C10", "child", c)
		u := universes[r.Intn(len(universes))]
		fd := 0
		if u.decimal {
			fd = 1 + r.Intn(18)
		}
		span := new(big.Int).Sub(u.hi, u.lo)
		rnd := func() *big.Int {
			switch r.Intn(6) {
			case 0:
				return new(big.Int).Set(u.lo)
			case 1:
				return new(big.Int).Set(u.hi)
			case 2: // near the ends
				d := big.NewInt(int64(r.Intn(4)))
				if r.Intn(2) == 0 {
					return new(big.Int).Add(u.lo, d)
				}
				return new(big.Int).Sub(u.hi, d)
			case 3: // small magnitudes
				v := big.NewInt(int64(r.Intn(21) - 10))
				if v.Cmp(u.lo) < 0 {
					return new(big.Int).Set(u.lo)
				}
				return v
			}
			v := new(big.Int).Rand(r, new(big.Int).Add(span, one))
			return v.Add(v, u.lo)
		}
		sorted := func(n int) []*big.Int {
			var pts []*big.Int
			for i := 0; i < n; i++ {
				pts = append(pts, rnd())
			}
			for i := 1; i < len(pts); i++ {
				for k := i; k > 0 && pts[k].Cmp(pts[k-1]) < 0; k-- {
					pts[k], pts[k-1] = pts[k-1], pts[k]
				}
			}
			return pts
		}
		// parent: 1-3 parts, coalesced
		np := 1 + r.Intn(3)
		pp := sorted(2 * np)
		var parent []exact.Iv
		for i := 0; i < np; i++ {
			parent = append(parent, exact.Iv{Lo: pp[2*i], Hi: pp[2*i+1]})
		}
		parent = exact.Coalesce(parent)
		var py yang.YangRange
		for _, iv := range parent {
			py = append(py, yang.YRange{Min: num(iv.Lo, fd), Max: num(iv.Hi, fd)})
		}
		pmin, pmax := parent[0].Lo, parent[len(parent)-1].Hi
		// child: 1-3 parts from interesting points
		var pool []*big.Int
		// mostly points inside the parent; one case in three also gets points outside
		outside := r.Intn(3) == 0
		for _, iv := range parent {
			w := new(big.Int).Sub(iv.Hi, iv.Lo)
			in := new(big.Int).Rand(r, new(big.Int).Add(w, one))
			pool = append(pool, iv.Lo, iv.Hi, new(big.Int).Rsh(new(big.Int).Add(iv.Lo, iv.Hi), 1), in.Add(in, iv.Lo))
			if outside {
				pool = append(pool, new(big.Int).Add(iv.Hi, one), new(big.Int).Sub(iv.Lo, one))
			}
		}
		if outside {
			pool = append(pool, rnd())
		}
		var ok []*big.Int
		for _, v := range pool {
			if v.Cmp(u.lo) >= 0 && v.Cmp(u.hi) <= 0 {
				ok = append(ok, v)
			}
		}
		nc := 1 + r.Intn(3)
		var cpts []*big.Int
		for i := 0; i < 2*nc; i++ {
			cpts = append(cpts, ok[r.Intn(len(ok))])
		}
		if r.Intn(8) > 0 { // mostly ascending
			for i := 1; i < len(cpts); i++ {
				for k := i; k > 0 && cpts[k].Cmp(cpts[k-1]) < 0; k-- {
					cpts[k], cpts[k-1] = cpts[k-1], cpts[k]
				}
			}
		}
		var child []exact.Iv
		var txt []string
		partOutOfOrder, rfcOrdered := false, true
		for i := 0; i < nc; i++ {
			a, z := cpts[2*i], cpts[2*i+1]
			if a.Cmp(z) > 0 {
				partOutOfOrder = true
			}
			if i > 0 && a.Cmp(cpts[2*i-1]) <= 0 {
				rfcOrdered = false
			}
			child = append(child, exact.Iv{Lo: a, Hi: z})
			as, zs := litAt(a, fd, r.Intn(3) == 0), litAt(z, fd, r.Intn(3) == 0)
			if a.Cmp(pmin) == 0 && r.Intn(2) == 0 {
				as = "min"
			}
			if z.Cmp(pmax) == 0 && r.Intn(2) == 0 {
				zs = "max"
			}
			if a.Cmp(z) == 0 && r.Intn(2) == 0 {
				txt = append(txt, as)
			} else {
				txt = append(txt, as+".."+zs)
			}
		}
		str := strings.Join(txt, []string{"|", " | "}[r.Intn(2)])
		desc := map[string]any{"parent": ivString(parent), "child": str, "fraction_digits": fd, "universe": u.name}
		if c%512 == 0 {
			s.Current(c, desc)
		}
		s.Count("child_restrictions", 1)
		if nc > 1 || len(parent) > 1 {
			s.Count("nontrivial", 1)
		}
		viol := func(class, detail string) {
			s.Violation(c, j.CaseID(c), "C10.child", class, detail, desc, map[string]any{"universe": u.name})
		}
		var got yang.YangRange
		var err error
		func() {
			defer func() {
				if rec := recover(); rec != nil {
					err = fmt.Errorf("PANIC %v", rec)
					viol("panic", fmt.Sprint(rec))
				}
			}()
			got, err = yang.VerifParseChildRanges(py, str, u.decimal, uint8(fd))
		}()
		if err != nil && strings.HasPrefix(err.Error(), "PANIC") {
			continue
		}
		union := exact.Coalesce(append([]exact.Iv{}, child...))
		within := !partOutOfOrder && exact.Subset(union, parent)
		switch {
		case partOutOfOrder:
			if err == nil {
				viol("accepts-out-of-order-part", fmt.Sprintf("%q within %s accepted as %v", str, ivString(parent), got))
			}
			continue
		case !within:
			if err == nil {
				viol("widening-accepted", fmt.Sprintf("%q admits values outside %s and was accepted as %v", str, ivString(parent), got))
			}
			s.Count("child_rejected_as_required", 1)
			continue
		case !rfcOrdered:
			if err != nil {
				continue // overlapping or unsorted parts: rejection or the union are both acceptable
			}
		default:
			if err != nil {
				viol("rejects-valid", fmt.Sprintf("%q within %s: %v", str, ivString(parent), err))
				continue
			}
		}
		g := toIv(got, fd)
		if msg := presentation(g); msg != "" {
			viol("presentation", fmt.Sprintf("%q within %s -> %v: %s", str, ivString(parent), got, msg))
		} else if !exact.Equal(g, union) {
			viol("wrong-set", fmt.Sprintf("%q within %s -> %v, written set %s", str, ivString(parent), got, ivString(union)))
		} else if !exact.Subset(g, parent) {
			viol("not-a-subset", fmt.Sprintf("%q within %s -> %v", str, ivString(parent), got))
		}
		s.Count("child_accepted_and_compared", 1)
		if c%20000 == 0 {
			s.Sample(1, desc)
		}
	}
}

// DecGrid: one- and two-part decimal64 restrictions over a boundary grid of mantissas,
// at several fraction-digits, through the exported ParseRangesDecimal.
func DecGrid(j *job.Job, s *job.Sink) {
	one := big.NewInt(1)
	min64 := new(big.Int).Neg(new(big.Int).Lsh(one, 63))
	max64 := new(big.Int).Sub(new(big.Int).Lsh(one, 63), one)
	var idx int64
	// boundaries written as whole numbers, at every fraction-digits: the number they denote
	// is the literal times 10^fraction-digits, which fits 64 bits or does not - in particular
	// when the product is far beyond them and would wrap into range
	if j.Shard == 0 {
		two63 := new(big.Int).Lsh(one, 63)
		two64 := new(big.Int).Lsh(one, 64)
		for fd := 1; fd <= 18; fd++ {
			q := exact.Pow10(fd)
			cands := []*big.Int{}
			for _, v := range []int64{0, 1, 9, 10, 19, 20, 92, 93, 99, 100, 184, 185, 922, 923, 1844674407, 1844674408, 9223372036, 9223372037} {
				cands = append(cands, big.NewInt(v))
			}
			for k := 1; k <= 20; k++ {
				cands = append(cands, exact.Pow10(k))
			}
			for _, lim := range []*big.Int{two63, two64, new(big.Int).Mul(two64, big.NewInt(3))} {
				f := new(big.Int).Div(lim, q)
				for d := int64(-1); d <= 1; d++ {
					if v := new(big.Int).Add(f, big.NewInt(d)); v.Sign() >= 0 {
						cands = append(cands, v)
					}
				}
			}
			for _, w := range cands {
				for _, neg := range []bool{false, true} {
					idx++
					s.Count("decimal_whole_number_boundaries", 1)
					lit := w.String()
					val := new(big.Int).Mul(w, q)
					if neg {
						lit = "-" + lit
						val.Neg(val)
					}
					fits := val.Cmp(min64) >= 0 && val.Cmp(max64) <= 0
					forms := []string{lit, "0.." + lit}
					if neg {
						forms = []string{lit, lit + "..0"}
					}
					for _, str := range forms {
						got, err := yang.ParseRangesDecimal(str, uint8(fd))
						desc := map[string]any{"restriction": str, "fraction_digits": fd}
						switch {
						case !fits && err == nil:
							s.Violation(idx, j.CaseID(idx), "C10.decimal", "accepts-invalid", fmt.Sprintf("fraction-digits %d: %q lies outside decimal64 (it denotes %s units of 10^-%d), resolved as %v", fd, str, val, fd, got), desc, nil)
						case fits && err != nil:
							s.Violation(idx, j.CaseID(idx), "C10.decimal", "rejects-valid", fmt.Sprintf("fraction-digits %d: %q: %v", fd, str, err), desc, nil)
						case fits && str == lit:
							want := new(big.Int).Abs(val)
							if len(got) != 1 || new(big.Int).SetUint64(got[0].Min.Value).Cmp(want) != 0 || got[0].Min.Negative != (val.Sign() < 0) || !got[0].Min.Equal(got[0].Max) {
								s.Violation(idx, j.CaseID(idx), "C10.decimal", "value", fmt.Sprintf("fraction-digits %d: %q resolved as %v, it denotes %s units of 10^-%d", fd, str, got, val, fd), desc, nil)
							}
						}
					}
				}
			}
		}
	}
	for fi, fd := range []int{1, 2, 3, 9, 17, 18} {
		q := exact.Pow10(fd) // one unit
		var grid []*big.Int
		for _, b := range []*big.Int{min64, max64, big.NewInt(0), q, new(big.Int).Neg(q), new(big.Int).Mul(q, big.NewInt(10)), new(big.Int).Mul(q, big.NewInt(-10))} {
			for d := int64(-1); d <= 1; d++ {
				v := new(big.Int).Add(b, big.NewInt(d))
				if v.Cmp(min64) >= 0 && v.Cmp(max64) <= 0 {
					grid = append(grid, v)
				}
			}
		}
		type dpart struct {
			text   string
			lo, hi *big.Int
		}
		var ps []dpart
		for _, a := range grid {
			ps = append(ps, dpart{litAt(a, fd, false), a, a})
			for _, b := range grid {
				ps = append(ps, dpart{litAt(a, fd, false) + ".." + litAt(b, fd, true), a, b})
			}
		}
		for pi, a := range ps {
			if (pi+fi)%j.Shards != j.Shard {
				continue
			}
			for _, b := range append([]dpart{{}}, ps...) {
				idx++
				parts := []dpart{a}
				if b.text != "" {
					parts = append(parts, b)
				}
				var texts []string
				var ivs []exact.Iv
				outOfOrder := false
				for _, p := range parts {
					texts = append(texts, p.text)
					ivs = append(ivs, exact.Iv{Lo: p.lo, Hi: p.hi})
					if p.lo.Cmp(p.hi) > 0 {
						outOfOrder = true
					}
				}
				rfcOrdered := len(ivs) < 2 || ivs[1].Lo.Cmp(ivs[0].Hi) > 0
				str := strings.Join(texts, "|")
				if idx%4096 == 0 {
					s.Current(idx, map[string]any{"restriction": str, "fraction_digits": fd})
				}
				s.Count("decimal_restrictions", 1)
				if len(parts) > 1 {
					s.Count("nontrivial", 1)
				}
				viol := func(class, detail string) {
					s.Violation(idx, j.CaseID(idx), "C10.decimal", class, detail, map[string]any{"restriction": str, "fraction_digits": fd}, nil)
				}
				got, err := yang.ParseRangesDecimal(str, uint8(fd))
				switch {
				case outOfOrder:
					if err == nil {
						viol("accepts-invalid", fmt.Sprintf("%q at fraction-digits %d accepted as %v", str, fd, got))
					}
					continue
				case !rfcOrdered:
					if err != nil {
						continue
					}
				default:
					if err != nil {
						viol("rejects-valid", fmt.Sprintf("%q at fraction-digits %d: %v", str, fd, err))
						continue
					}
				}
				g := toIv(got, fd)
				want := exact.Coalesce(ivs)
				if msg := presentation(g); msg != "" {
					viol("presentation", fmt.Sprintf("%q -> %v: %s", str, got, msg))
				} else if !exact.Equal(g, want) {
					viol("wrong-set", fmt.Sprintf("%q at fraction-digits %d -> %v, written set (mantissas) %s", str, fd, got, ivString(want)))
				}
				for _, r := range got {
					if int(r.Min.FractionDigits) != fd || int(r.Max.FractionDigits) != fd {
						viol("wrong-precision", fmt.Sprintf("%q at fraction-digits %d -> a bound with %d/%d fraction digits", str, fd, r.Min.FractionDigits, r.Max.FractionDigits))
					}
				}
			}
		}
	}
}
