package w10

import (
	"fmt"
	"math/big"
	"strings"

	"github.com/openconfig/goyang/pkg/yang"
	"verif/internal/job"
	"verif/internal/prng"
)

// Decimals: several decimal64 types with different fraction-digits in one module set, some of
// them without a range statement or with one that keeps the whole base set (min..max). The
// set each one denotes is that of its own fraction-digits, whichever types were resolved
// before or after it (a seeded change let all of them share one table of bounds).
func Decimals(j *job.Job, s *job.Sink) {
	scaled := func(v *big.Int, fd int) string {
		neg := v.Sign() < 0
		d := new(big.Int).Abs(v).String()
		for len(d) <= fd {
			d = "0" + d
		}
		out := d[:len(d)-fd] + "." + d[len(d)-fd:]
		if neg {
			out = "-" + out
		}
		return out
	}
	minV, _ := new(big.Int).SetString("-9223372036854775808", 10)
	maxV, _ := new(big.Int).SetString("9223372036854775807", 10)
	for c := j.Start; c < j.Start+j.Count; c++ {
		r := prng.For(j.Seed, "C10", "decimals", c)
		n := 2 + r.Intn(4)
		var b strings.Builder
		b.WriteString("module zd {\n  namespace \"urn:zd\";\n  prefix zd;\n")
		want := map[string]string{}
		var order []string
		for i := 0; i < n; i++ {
			fd := 1 + r.Intn(18)
			p10 := new(big.Int).Exp(big.NewInt(10), big.NewInt(int64(fd)), nil)
			lo, hi := scaled(minV, fd), scaled(maxV, fd)
			name := fmt.Sprintf("d%d", i)
			rng, w := "", lo+".."+hi
			switch r.Intn(5) {
			case 1:
				rng = "min..max"
			case 2:
				if new(big.Int).Mul(big.NewInt(5), p10).Cmp(maxV) <= 0 {
					rng, w = "min..-1 | 5..max", lo+".."+scaled(new(big.Int).Neg(p10), fd)+"|"+scaled(new(big.Int).Mul(big.NewInt(5), p10), fd)+".."+hi
				}
			case 3:
				rng, w = "0..max", scaled(big.NewInt(0), fd)+".."+hi
			}
			rs := ""
			if rng != "" {
				rs = fmt.Sprintf(" range %q;", rng)
			}
			if r.Intn(3) == 0 {
				fmt.Fprintf(&b, "  typedef t%d { type decimal64 { fraction-digits %d;%s } }\n  leaf %s { type t%d; }\n", i, fd, rs, name, i)
			} else {
				fmt.Fprintf(&b, "  leaf %s { type decimal64 { fraction-digits %d;%s } }\n", name, fd, rs)
			}
			want[name] = w
			order = append(order, name)
		}
		b.WriteString("}\n")
		cs := map[string]string{"zd.yang": b.String()}
		s.Current(c, cs)
		s.Count("decimal_sets", 1)
		s.Count("nontrivial", 1)
		ms := yang.NewModules()
		if err := ms.Parse(b.String(), "zd.yang"); err != nil {
			s.Violation(c, j.CaseID(c), "C10.decimals", "generator", err.Error(), cs, nil)
			continue
		}
		if errs := ms.Process(); len(errs) > 0 {
			s.Violation(c, j.CaseID(c), "C10.decimals", "rejects-valid", errs[0].Error(), cs, nil)
			continue
		}
		e := yang.ToEntry(ms.Modules["zd"])
		for _, name := range order {
			le := e.Dir[name]
			if le == nil || le.Type == nil {
				s.Violation(c, j.CaseID(c), "C10.decimals", "type-nil", name, cs, nil)
				continue
			}
			var parts []string
			for _, p := range le.Type.Range {
				parts = append(parts, p.Min.String()+".."+p.Max.String())
			}
			s.Count("decimal_types_checked", 1)
			if got := strings.Join(parts, "|"); got != want[name] {
				s.Violation(c, j.CaseID(c), "C10.decimals", "wrong-set", fmt.Sprintf("leaf %s denotes %s, written set %s", name, got, want[name]), cs, nil)
			}
		}
	}
}
