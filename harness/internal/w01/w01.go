// Package w01 is the workload of C01: hostile, mutated and generated inputs pushed
// through load, process and read-back. The monitor is the process itself (panic,
// fatal error, CPU budget); this package only drives, logs each case before it runs,
// and turns recovered panics into records.
package w01

import (
	"bytes"
	"fmt"
	"math/rand"
	"os"
	"path/filepath"
	"reflect"
	"regexp"
	"runtime/debug"
	"strings"

	"github.com/openconfig/goyang/pkg/yang"
	"verif/internal/job"
	"verif/internal/prng"
	"verif/internal/schema"
)

var tokRe = regexp.MustCompile(`"[^"]*"|[{};]|[^\s{};"]+`)

var keywords = []string{"module", "submodule", "container", "leaf", "leaf-list", "list", "choice", "case", "uses", "grouping", "typedef", "type", "augment", "deviation", "deviate", "rpc", "action", "input", "output", "notification", "import", "include", "prefix", "namespace", "belongs-to", "revision", "identity", "base", "key", "config", "default", "mandatory", "min-elements", "max-elements", "range", "length", "pattern", "enum", "bit", "value", "position", "fraction-digits", "path", "units", "anyxml", "anydata", "when", "must", "unique", "ordered-by", "status", "description", "x:ext", "Name", "Parent", "Statement", "Ext", "bogus", "refine", "feature", "if-feature", "extension", "argument", "yang-version", "revision-date", "require-instance", "presence", "organization", "contact", "reference", "error-message", "modifier"}

var argPool = []string{"0", "1", "-1", "-0", "18446744073709551615", "18446744073709551616", "-18446744073709551615", "9223372036854775808", "1..5", "min..max", "5..1", "1..2..3", "a", "/", "//", "/a:b", "/m:", "m:", "../x", "\"\"", "true", "false", "2020-01-01", "unbounded", "p:q", "not-supported", "add", "replace", "delete", "string", "int8", "decimal64", "enumeration", "identityref", "leafref", "union", "bits", "empty", "instance-identifier", "input", "output", "0x10", "1e3", "1.5", "current", "system", "user"}

var noise = []byte("{};\"'\\/*+\n\t \x00\xff")

func mutate(r *rand.Rand, text string, pool []string) string {
	if r.Intn(5) == 0 { // byte level
		b := []byte(text)
		for n := 1 + r.Intn(4); n > 0 && len(b) > 0; n-- {
			i := r.Intn(len(b))
			switch r.Intn(4) {
			case 0:
				b[i] ^= 1 << uint(r.Intn(8))
			case 1:
				b = append(b[:i], b[i+1:]...)
			case 2:
				b = append(b[:i], append([]byte{noise[r.Intn(len(noise))]}, b[i:]...)...)
			default:
				b = b[:i]
			}
		}
		return string(b)
	}
	toks := tokRe.FindAllString(text, -1)
	if len(toks) == 0 {
		return text
	}
	for n := 1 + r.Intn(3); n > 0; n-- {
		j := r.Intn(len(toks))
		switch r.Intn(7) {
		case 0:
			toks = append(toks[:j], toks[j+1:]...)
		case 1:
			toks = append(toks[:j+1], toks[j:]...)
		case 2:
			toks[j] = keywords[r.Intn(len(keywords))]
		case 3:
			toks[j] = pool[r.Intn(len(pool))]
		case 4:
			k := r.Intn(len(toks))
			toks[j], toks[k] = toks[k], toks[j]
		case 5:
			ins := []string{keywords[r.Intn(len(keywords))], pool[r.Intn(len(pool))], ";"}
			toks = append(toks[:j], append(ins, toks[j:]...)...)
		default:
			ins := []string{keywords[r.Intn(len(keywords))], pool[r.Intn(len(pool))], "{", keywords[r.Intn(len(keywords))], pool[r.Intn(len(pool))], ";", "}"}
			toks = append(toks[:j], append(ins, toks[j:]...)...)
		}
		if len(toks) == 0 {
			return ""
		}
	}
	return strings.Join(toks, " ")
}

// decorations are optional substatements that are valid under many statements; which
// of them a keyword takes is listed in decorable. Resolver code paths that copy or
// annotate entries (when, if-feature, status, reference, extensions) only run when these
// are present, so every hazard is also tried in their company.
var decorations = map[byte]string{'w': `when "x";`, 'f': `if-feature feat;`, 's': `status deprecated;`, 'r': `reference "r";`, 'd': `description "d";`, 'm': `must "x";`, 'e': `x:ext "e";`, 'c': `config false;`, 'p': `presence "p";`, 'g': `ghost:posix-pattern "x";`, 'o': `ocx:posix-pattern "^a$";`, 'q': `pattern "[a";`}
var decorable = map[string]string{"uses": "wfsrde", "leaf": "wfsrdmec", "leaf-list": "wfsrdmec", "container": "wfsrdmecp", "list": "wfsrdmec", "choice": "wfsrdec", "case": "wfsrde", "anyxml": "wfsrdmec", "anydata": "wfsrdmec", "augment": "wfsrde", "rpc": "fsrde", "action": "fsrde", "notification": "fsrdme", "grouping": "srde", "typedef": "srde", "identity": "fsrde", "input": "me", "output": "me", "deviation": "rde", "import": "rde", "include": "rde", "enum": "fsrde", "bit": "fsrde", "refine": "fde", "feature": "fsrde", "type": "egoq", "module": "e", "submodule": "e"}

// decorate gives about one in three decorable statements one to three extra substatements.
func decorate(r *rand.Rand, text string) string {
	toks := tokRe.FindAllString(text, -1)
	var out []string
	for i := 0; i < len(toks); i++ {
		out = append(out, toks[i])
		opts := decorable[toks[i]]
		if opts == "" || i+2 >= len(toks) || r.Intn(3) > 0 {
			continue
		}
		// the statement is `kw arg ;` or `kw arg {` (input/output: `kw {`)
		j := i + 1
		if toks[j] != "{" && toks[j] != ";" {
			out = append(out, toks[j])
			j++
		}
		if j >= len(toks) || (toks[j] != "{" && toks[j] != ";") {
			i = j - 1
			continue
		}
		var dec []string
		for n := 1 + r.Intn(3); n > 0; n-- {
			dec = append(dec, decorations[opts[r.Intn(len(opts))]])
		}
		if toks[j] == ";" {
			out = append(out, "{", strings.Join(dec, " "), "}")
		} else {
			out = append(out, "{", strings.Join(dec, " "))
		}
		i = j
	}
	return strings.Join(out, " ")
}

func walk(e *yang.Entry, f func(*yang.Entry), depth int) {
	if e == nil || depth > 400 {
		return
	}
	f(e)
	for _, c := range e.Dir {
		walk(c, f, depth+1)
	}
	if e.RPC != nil {
		walk(e.RPC.Input, f, depth+1)
		walk(e.RPC.Output, f, depth+1)
	}
}

var hostilePaths = []string{"", "/", "//", "/.", "/..", "..", "../..", ".", "a", "/a", "/a/", "a//b", "/:", ":", "/x:", "/:x", "/a:b/c:d", "input", "output", "input/output", "../input", "/bogus:a", "a/../../../..", "/a/./b", "a:b:c"}

type countingWriter struct{ n int64 }

func (c *countingWriter) Write(p []byte) (int, error) { c.n += int64(len(p)); return len(p), nil }

// braceDepth is an upper bound of the nesting depth of the text (quoting is ignored).
func braceDepth(t string) int {
	d, max := 0, 0
	for i := 0; i < len(t); i++ {
		switch t[i] {
		case '{':
			d++
			if d > max {
				max = d
			}
		case '}':
			if d > 0 {
				d--
			}
		}
	}
	return max
}

// Execute loads the texts into one set, processes, and reads everything back. It returns
// what happened, for the counters: "load-error", "process-error", "clean".
func Execute(texts []string, names []string, useFiles bool) (outcome string, errClasses []string) {
	ms := yang.NewModules()
	// the parse options are part of the input: derived from the texts, so that a case is
	// reproducible from its description alone
	h := 0
	for _, t := range texts {
		h += len(t)
	}
	ms.ParseOptions.StoreUses = h%2 == 0
	ms.ParseOptions.IgnoreSubmoduleCircularDependencies = h%3 == 0
	ms.ParseOptions.DeviateOptions.IgnoreDeviateNotSupported = h%5 == 0
	loadedAny := false
	deepest := 0
	for _, t := range texts {
		if d := braceDepth(t); d > deepest {
			deepest = d
		}
	}
	for j, t := range texts {
		if ss, err := yang.Parse(t, "generic"); err == nil {
			writable := int64(len(t))*int64(braceDepth(t)+1) <= 1<<30 // (once per text, not per statement)
			for _, s := range ss {
				s.Location()
				s.Arg()
				// Written output is indented by the nesting depth, so its size is the
				// product of text size and depth by the nature of the call: it goes to
				// a writer that only counts, and texts whose product exceeds 1 GiB are
				// not written at all (a thorough run died of its own 8 GB buffer here).
				if writable {
					s.Write(&countingWriter{}, "")
				}
			}
		}
		var err error
		if useFiles {
			err = ms.Read(names[j])
		} else {
			err = ms.Parse(t, names[j])
		}
		if err != nil {
			errClasses = append(errClasses, classify(err.Error()))
		} else {
			loadedAny = true
		}
	}
	errs := ms.Process()
	for _, e := range errs {
		errClasses = append(errClasses, classify(e.Error()))
	}
	// The syntax trees of the accepted texts are there whatever Process said: the
	// node-level lookups work on them alone.
	for _, mm := range []map[string]*yang.Module{ms.Modules, ms.SubModules} {
		for _, m := range mm {
			yang.ChildNode(m, "nosuchchild")
			yang.FindNode(m, "/"+m.GetPrefix()+":nosuch/child")
			yang.FindNode(m, "nosuch")
			yang.NodePath(m)
			for _, u := range m.Uses {
				yang.ChildNode(u, "x")
				yang.FindNode(u, "../"+u.Name)
			}
		}
	}
	if len(errs) > 0 {
		if !loadedAny {
			return "load-error", errClasses
		}
		return "process-error", errClasses
	}
	for _, mm := range []map[string]*yang.Module{ms.Modules, ms.SubModules} {
		for _, m := range mm {
			root := yang.ToEntry(m)
			root.GetErrors()
			// entries that stand alone: the deviations of the module and what hangs below them
			for _, d := range root.Deviations {
				var ds []*yang.Entry
				ds = append(ds, d.Entry)
				for _, l := range d.Deviate {
					ds = append(ds, l...)
				}
				for _, x := range ds {
					x.Path()
					x.Namespace()
					x.InstantiatingModule()
					x.ReadOnly()
					x.GetErrors()
					x.DefaultValues()
					x.Modules()
					x.Find("/" + m.GetPrefix() + ":x")
					x.Find(d.Name)
					x.Find("..")
					var b bytes.Buffer
					x.Print(&b)
				}
			}
			for _, a := range root.Augmented {
				a.Path()
				a.InstantiatingModule()
				a.Find("/" + m.GetPrefix() + ":x")
			}
			walk(root, func(e *yang.Entry) {
				e.Namespace()
				e.InstantiatingModule()
				e.ReadOnly()
				e.DefaultValues()
				e.SingleDefaultValue()
				e.GetWhenXPath()
				e.IsDir()
				e.IsContainer()
				e.IsCase()
				e.IsLeafList()
				if e.Node != nil {
					yang.FindGrouping(e.Node, "nosuchgrouping", nil)
					yang.FindGrouping(e.Node, e.Name, nil)
					yang.FindModuleByPrefix(e.Node, m.GetPrefix())
					yang.NodePath(e.Node)
					yang.FindNode(e.Node, "../"+e.Name)
					yang.FindNode(e.Node, e.Name)
					for _, hp := range hostilePaths[:12] {
						yang.FindNode(e.Node, hp)
					}
					yang.ChildNode(e.Node, e.Name)
					yang.Source(e.Node)
					yang.MatchingEntryExtensions(e, "openconfig-extensions", "posix-pattern")
				}
				for _, u := range e.Uses {
					_ = u.Grouping
				}
				// the tree hands out nodes of its own: the statements of the extensions written
				// on a node, the nodes kept in Extra. They are Nodes like any other to the
				// node-level API and to ToEntry.
				for _, x := range e.Exts {
					if x != nil {
						ee := yang.ToEntry(x)
						ee.Find("/" + m.GetPrefix() + ":" + e.Name)
						ee.Find("../x")
						ee.Namespace()
						ee.InstantiatingModule()
						ee.Path()
						yang.FindModuleByPrefix(x, m.GetPrefix())
						yang.FindModuleByPrefix(x, "")
						yang.FindGrouping(x, "g", nil)
						yang.ToEntry(x).GetErrors()
						yang.NodePath(x)
						yang.FindNode(x, "../"+e.Name)
						yang.Source(x)
					}
				}
				for _, xs := range e.Extra {
					for _, x := range xs {
						if n, ok := x.(yang.Node); ok && n != nil && !reflect.ValueOf(n).IsNil() {
							yang.NodePath(n)
							yang.Source(n)
						}
					}
				}
				yang.CamelCase(e.Name)
				e.IsLeaf()
				e.IsList()
				e.IsChoice()
				p := e.Path()
				e.Find(p)
				e.Find("../" + e.Name)
				e.Find("/" + m.GetPrefix() + ":" + strings.TrimPrefix(p, "/"))
				for _, hp := range hostilePaths {
					e.Find(hp)
				}
			}, 0)
			var b bytes.Buffer
			// (Entry.Print wraps one indenting writer around another per level: its time is
			// the cube of the nesting depth, 40 s at 4000 levels. It is a debugging aid, not
			// the loader; trees from texts nested deeper than 500 levels are not printed.)
			if deepest <= 500 {
				root.Print(&b)
				yang.PrintNode(&b, m) // (the same construction, the same cube)
			}
			ms.FindModuleByNamespace("urn:nope")
			yang.FindModuleByPrefix(m, m.GetPrefix())
		}
	}
	if !loadedAny {
		return "load-error", errClasses
	}
	return "clean", errClasses
}

var digits = regexp.MustCompile(`[0-9]+`)
var quoted = regexp.MustCompile(`"[^"]*"`)
var ident = regexp.MustCompile(`\b[a-z]?[0-9]+\b|\b[a-z][a-z]?[0-9]+(sub[0-9])?\b`)

// classify masks numbers, names and quoted text so that error messages fall into classes.
func classify(msg string) string {
	msg = strings.SplitN(msg, "\n", 2)[0]
	msg = quoted.ReplaceAllString(msg, "\"…\"")
	msg = ident.ReplaceAllString(msg, "N")
	msg = digits.ReplaceAllString(msg, "N")
	if len(msg) > 80 {
		msg = msg[:80]
	}
	return msg
}

func frameOf(stack string) string {
	for _, l := range strings.Split(stack, "\n") {
		if strings.HasPrefix(l, "github.com/openconfig/goyang/") && !strings.Contains(l, "panic") {
			if k := strings.LastIndex(l, "("); k > 0 {
				l = l[:k]
			}
			return strings.TrimPrefix(l, "github.com/openconfig/goyang/")
		}
	}
	return ""
}

type caseDesc struct {
	Family string   `json:"family"`
	Names  []string `json:"names"`
	Texts  []string `json:"texts"`
	Files  bool     `json:"files,omitempty"`
}

func runOne(j *job.Job, s *job.Sink, idx int64, cd caseDesc) {
	s.Current(idx, cd)
	s.Count("cases", 1)
	func() {
		defer func() {
			if rec := recover(); rec != nil {
				st := string(debug.Stack())
				msg := fmt.Sprint(rec)
				if len(msg) > 100 {
					msg = msg[:100]
				}
				s.Violation(idx, j.CaseID(idx), "C01.recovered", "panic@"+frameOf(st), fmt.Sprintf("%s in %s", msg, frameOf(st)), cd, map[string]any{"kind": msg, "frame": frameOf(st)})
			}
		}()
		if cd.Files {
			dir, _ := os.MkdirTemp(".", "files")
			old, _ := os.Getwd()
			for i, t := range cd.Texts {
				os.WriteFile(filepath.Join(dir, cd.Names[i]), []byte(t), 0o644)
			}
			os.Chdir(dir)
			defer func() { os.Chdir(old); os.RemoveAll(filepath.Join(old, dir)) }()
		}
		outcome, classes := Execute(cd.Texts, cd.Names, cd.Files)
		s.Count("outcome:"+outcome, 1)
		if outcome != "load-error" {
			s.Count("nontrivial", 1)
		}
		for _, c := range classes {
			s.Seen("error_classes", c)
		}
	}()
}

// Mutate: generated valid module sets with token- and byte-level mutations.
func Mutate(j *job.Job, s *job.Sink) {
	for i := j.Start; i < j.Start+j.Count; i++ {
		r := prng.For(j.Seed, "C01", "mutate", i)
		g := &schema.Gen{R: r, Typedefs: true}
		g.Build()
		cd := caseDesc{Family: "mutate"}
		pool := append([]string{}, argPool...)
		for _, m := range g.Mods {
			t := schema.Print(m)
			cd.Texts = append(cd.Texts, t)
			cd.Names = append(cd.Names, m.Name+".yang")
			for _, tk := range tokRe.FindAllString(t, -1) {
				if len(tk) > 1 && r.Intn(20) == 0 {
					pool = append(pool, tk)
				}
			}
		}
		// one time in six a module is present in two revisions, the older one keeping
		// the original text (and so its imports, includes and uses)
		if r.Intn(6) == 0 {
			m := g.Mods[r.Intn(len(g.Mods))]
			for k, mm := range g.Mods {
				if mm == m {
					m.Revs = []string{"2019-01-01"}
					cd.Texts[k] = schema.Print(m)
					m.Revs = []string{"2020-02-02"}
					cd.Texts = append(cd.Texts, mutate(r, schema.Print(m), pool))
					cd.Names = append(cd.Names, m.Name+"@2020-02-02.yang")
					m.Revs = nil
				}
			}
		}
		for k := range cd.Texts {
			if r.Intn(4) == 0 {
				cd.Texts[k] = decorate(r, cd.Texts[k])
			}
			if r.Intn(2) == 0 {
				cd.Texts[k] = mutate(r, cd.Texts[k], pool)
			}
		}
		r.Shuffle(len(cd.Texts), func(a, b int) {
			cd.Texts[a], cd.Texts[b] = cd.Texts[b], cd.Texts[a]
			cd.Names[a], cd.Names[b] = cd.Names[b], cd.Names[a]
		})
		if len(cd.Texts) > 1 && r.Intn(6) == 0 {
			cd.Texts, cd.Names = cd.Texts[1:], cd.Names[1:] // a missing dependency
		}
		cd.Files = r.Intn(10) == 0
		runOne(j, s, i, cd)
		if i%3000 == 0 {
			s.Sample(1, map[string]any{"names": cd.Names, "first_text": cd.Texts[0][:min(len(cd.Texts[0]), 500)]})
		}
	}
}

// hazards are templates of constructs that are known to be dangerous for resolvers.
var hazards = []string{
	`%K x;`,
	`module m { %H %K x; }`,
	`module m { %H Parent x; }`, `module m { %H rpc r { input { Name z; } } }`, `module m { %H Statement x; }`,
	`module m { %H identity a { base a; } }`, `module m { %H identity a { base b; } identity b { base a; } leaf l { type identityref { base a; } } }`,
	`module m { %H typedef a { type a; } leaf l { type a; } }`, `module m { %H typedef a { type b; } typedef b { type union { type a; } } leaf l { type b; } }`,
	`module m { %H grouping g { uses g; } uses g; }`, `module m { %H grouping g { container c { uses h; } } grouping h { uses g; } uses h; }`,
	`module m { %H leaf l { type string; } augment /m:l { leaf x { type string; } } }`,
	`module m { %H anyxml a; augment /m:a { leaf x { type string; } } }`,
	`module m { %H rpc r; augment /m:r/m:input { leaf x { type %T; } } augment /m:r/m:bogus/m:output { leaf y { type string; } } }`,
	`module m { %H container c { action a; } augment /m:c/m:a/m:output { leaf x { type string; } } }`,
	`module m { %H choice c { leaf a { type string; } } augment /m:c/m:a { leaf b { type string; } } augment /m:c/m:a/m:a { leaf z { type string; } } }`,
	`submodule s { belongs-to nowhere { prefix n; } identity i; typedef t { type nosuch; } leaf l { type t; } uses g; augment /n:x { leaf y { type string; } } }`,
	`submodule s { belongs-to m { prefix m; } include s; leaf l { type nope; } }`,
	`module m { %H include m; import m { prefix x; } leaf l { type x:t; } }`,
	`module m { %H include s1; include s2; uses nog; container c { uses nog2; } } submodule s1 { belongs-to m { prefix m; } include s2; uses nog3; grouping a { leaf x { type %T; } } } submodule s2 { belongs-to m { prefix m; } include s1; uses a; uses nog4; }`,
	`module m { %H import n { prefix n; } uses n:nog; } module n { namespace "urn:n"; prefix n; import m { prefix m; } include ns; uses m:nog; } submodule ns { belongs-to n { prefix n; } include ns; import m { prefix m; } }`,
	`module m { %H import n { prefix n; } leaf l { type n:t; } uses n:g; augment /n:c { leaf x { type string; } } deviation /n:c { deviate not-supported; } }`,
	`module m { %H deviation %P { deviate %D; } }`,
	`module m { %H leaf l { type string; default x; } deviation /m:l { deviate %D { default y; min-elements %N; max-elements %N; config %A; mandatory %A; type %T; units u; } } }`,
	`module m { %H list l { key %A; leaf k { type string; } min-elements %N; max-elements %N; ordered-by %A; } deviation /m:l { deviate %D { min-elements %N; } deviate %D { max-elements %N; } } }`,
	`module m { %H leaf l { type decimal64 { fraction-digits %N; range "%R"; } default %N; } }`,
	`module m { %H leaf l { type %T { range "%R"; length "%R"; pattern "%A"; fraction-digits %N; enum a { value %N; } enum b; bit c { position %N; } bit d; path "%P"; base %A; require-instance %A; type %T; } } }`,
	`module m { %H typedef t { type %T { range "%R"; } } typedef u { type t { range "%R"; } } leaf l { type u { range "%R"; } } }`,
	`module m { %H container c { deviation /m:c { deviate add; } } }`,
	`module m { %H revision %A; revision %A; import m { prefix q; revision-date %A; } }`,
	`module m { %H rpc r { input { choice c { leaf a { type nope; } } } output { uses nog; } } notification n { leaf x { type %T { range "%R"; } } } }`,
	`module m { %H grouping g { action a { input { leaf x { type string; } } } } container u1 { uses g; } container u2 { uses g; } augment /m:u1/m:a/m:input { container k { uses g; } } }`,
	`module m { %H leaf l { type leafref { path "%P"; } } leaf i { type instance-identifier; } leaf e { type empty; default x; } }`,
	`module m { %H extension e { argument a { yin-element true; } } m:e x { m:e y; } leaf l { type string { m:e z; q:r s; } } }`,
}

// revision and ownership layouts: several revisions of one name loaded together, with
// the dependencies sitting in the older one; imports and includes by revision-date of
// present and absent revisions; a module and a submodule sharing a name.
var layoutHazards = []string{
	`module m { %H revision 2019-01-01; include s; uses sg; } module m { %H revision 2020-01-01; leaf z { type string; } } submodule s { belongs-to m { prefix m; } grouping sg { leaf a { type %T; } } }`,
	`module m { %H revision 2019-01-01; import n { prefix n; } container c { uses n:g; } leaf l { type n:t; } } module m { %H revision 2020-01-01; } module n { namespace "urn:n"; prefix n; typedef t { type string; } grouping g { leaf gl { type t; } } }`,
	`module m { %H revision 2019-01-01; identity a; identity b { base a; } } module m { %H revision 2020-01-01; identity a; identity b { base a; } identity c { base b; } leaf l { type identityref { base a; } } } module u { namespace "urn:u"; prefix u; import m { prefix mm; revision-date %V; } identity d { base mm:a; } leaf l { type identityref { base mm:b; } } }`,
	`module m { %H include s { revision-date %V; } uses sg; leaf l { type st; } } submodule s { belongs-to m { prefix m; } revision 2019-01-01; typedef st { type int8; } grouping sg { leaf old { type st; } } } submodule s { belongs-to m { prefix m; } revision 2020-01-01; typedef st { type string; } grouping sg { leaf new { type st; } } }`,
	`module m { %H revision 2020-01-01; augment /x:c { leaf a { type string; } } import x { prefix x; } deviation /x:c/x:d { deviate %D; } } module m { %H revision 2021-01-01; import x { prefix x; } augment /x:c { leaf a { type string; } } } module x { namespace "urn:x"; prefix x; container c { leaf d { type string; } } }`,
	`module m { %H include m; } submodule m { belongs-to m { prefix m; } leaf l { type %T; } }`,
	// a typedef whose union names the typedef itself more than once (the ring is met again while
	// it is being reported), and required substatements that are only there as extension
	// statements of the same name
	`module m { %H typedef a { type union { type a; type a; } } leaf l { type a; } }`,
	`module m { %H typedef a { type union { type string; type m:a; type union { type int8; type a; } } } typedef b { type union { type a; type b; type a; } } leaf l { type b; } }`,
	`module m { %H extension type { argument a; } extension prefix; leaf x { m:type string; } typedef t { m:type string; } leaf y { type t; } }`,
	`module m { %H import e { m:prefix e; } leaf x { type e:t; } } module e { namespace "urn:e"; prefix e; typedef t { type string; } }`,
	`module m { prefix m; m:namespace "urn:m"; leaf x { type string; } } submodule s { m:belongs-to m; leaf y { type string; } }`,
	// restrictions of several parts of which one ends exactly where the parent set ends, or
	// lies beyond it, written on built-in types and on typedefs that are restricted already
	`module m { %H leaf l { type uint8 { range "%Q"; } } leaf k { type int8 { range "%Q"; } } typedef s { type string { length "1..10"; } } leaf n { type s { length "%L"; } } }`,
	`module m { %H typedef p { type int32 { range "1..5 | 10..20"; } } typedef q { type p { range "%Q"; } } leaf l { type q { range "%Q"; } } leaf d { type decimal64 { fraction-digits 2; range "1..5 | 10..20"; } } }`,
	`module m { %H typedef p { type string { length "1..5 | 10..20"; } } leaf l { type p { length "%L"; } } leaf b { type binary { length "%L"; } } }`,
	// member lists with positions or values that collide, in types that get compared with each
	// other: two members of one union, a typedef and a type that lists the members again
	`module m { %H leaf l { type union { type bits { bit x { position %B; } bit y { position %B; } } type bits { bit w { position %B; } bit y { position %B; } } type bits { bit y; bit w; } } } }`,
	`module m { %H typedef tb { type bits { bit x { position %B; } bit y { position %B; } } } leaf l { type tb { bit w { position %B; } bit y { position %B; } } } leaf-list ll { type union { type tb; type tb { bit y { position %B; } bit x { position %B; } } } } }`,
	`module m { %H typedef te { type enumeration { enum x { value %B; } enum y { value %B; } } } leaf l { type union { type te; type enumeration { enum y { value %B; } enum w { value %B; } } type te { enum x; } } } }`,
	// module names that are paths (the loader looks for modules as files), in imports, includes
	// and revision dates
	`module m { %H import "/dev/zero" { prefix z; } }`, `module m { %H include "../../../../../../dev/zero"; }`, `module m { %H import n { prefix n; revision-date "/../../../../../dev/zero"; } }`,
	`module m { %H import "/proc/self/environ" { prefix z; } leaf l { type z:t; } }`, `submodule s { belongs-to "/dev/zero" { prefix z; } leaf l { type z:t; } }`,
	// many uses of groupings that cannot be found (every one is followed by every lookup)
	`module m { %H uses g0; uses g1; uses g2; uses g3; uses g4; uses g5; uses g6; uses g7; uses g8; uses g9; uses g10; uses g11; uses g12; uses g13; grouping real { leaf in { type string; } } uses real; }`,
	`module m { %H import n { prefix n; } uses n:g0; uses n:g1; uses n:g2; uses n:g3; uses n:g4; uses n:g5; uses n:g6; uses n:g7; uses n:g8; uses n:g9; uses n:g10; uses n:g11; } module n { namespace "urn:n"; prefix n; grouping g0 { uses g1; uses g2; uses g3; uses nope; } grouping g1 { uses g0; uses g2; uses g3; } grouping g2 { uses g3; } }`,
	// refine statements (goyang reads them and applies none): targets by descendant path, by
	// absolute path with and without prefixes, with every refinable property
	`module m { %H grouping g { container top { leaf l { type string; } leaf-list ll { type string; } } leaf x { type string; } } container c { uses g { refine "top/l" { default b; mandatory %A; config %A; } refine "/m:top/m:l" { default c; } refine /top/ll { min-elements %N; max-elements %N; default d; } refine "%P" { default e; description d; } refine x { default f; } } } }`,
	`module m { %H import n { prefix n; } container c { uses n:g { refine "/n:top/n:l" { default b; } refine "n:top" { presence p; config %A; } refine ../x { default z; } } } } module n { namespace "urn:n"; prefix n; grouping g { container top { leaf l { type string; } } } }`,
	// deviations of properties the target has only by inheritance (a default or units that come
	// from its typedef), of leaf-lists with several defaults, of rpc input/output and of choices
	`module m { %H typedef td { type %T; default %A; units u; } leaf l { type td; } leaf-list ll { type td; default a; default b; } deviation /m:l { deviate %D { default %A; units %A; } } deviation /m:ll { deviate %D { default a; } } }`,
	`module m { %H typedef td { type string; default k; } leaf l { type td; } deviation /m:l { deviate delete { default %A; } deviate %D { default k; } } }`,
	`module m { %H rpc r { input { leaf i { type string; } } } deviation /m:r/m:input { deviate %D; } deviation /m:r/m:output { deviate %D { config %A; } } deviation /m:r { deviate %D { default x; } } deviation /m:r/m:input/m:i { deviate %D { mandatory %A; } } }`,
	`module m { %H choice ch { leaf a { type string; } case b { leaf c { type string; } } default a; } deviation /m:ch { deviate %D { default %A; mandatory %A; } } deviation /m:ch/m:a { deviate %D; } deviation /m:ch/m:b/m:c { deviate %D { type %T; } } }`,
	`module m { %H revision 2020-01-01; import m { prefix self; revision-date 2019-01-01; } leaf l { type self:t; } } module m { %H revision 2019-01-01; typedef t { type string; } import m { prefix other; revision-date 2020-01-01; } }`,
	`module m { %H revision 2019-01-01; include s; } module m { %H revision 2020-01-01; include s; } submodule s { belongs-to m { prefix m; } container sc { leaf a { type string; } } } module a { namespace "urn:a"; prefix a; import m { prefix m; revision-date %V; } augment /m:sc { leaf b { type string; } } }`,
}

var fill = map[string][]string{
	"%V": {"2019-01-01", "2020-01-01", "2018-01-01", "2021-01-01"},
	"%K": keywords,
	"%H": {`namespace "urn:m"; prefix m;`, `namespace "urn:m"; prefix m; yang-version 1.1;`, `prefix m; namespace "";`},
	"%T": {"string", "int8", "uint64", "decimal64", "enumeration", "bits", "union", "identityref", "leafref", "empty", "boolean", "binary", "instance-identifier", "nosuch", "m:t", "x:y", "\"\""},
	"%P": {"/", "", "//", "/m:l", "/m:c/m:d", "../x", "/m:", "m:", "/x:y", "/m:r/m:input", "/m:l/m:l", "."},
	"%D": {"add", "replace", "delete", "not-supported", "frobnicate", "\"\""},
	"%B": {"0", "1", "1", "2", "4294967295", "-1"},
	"%Q": {"250..255 | 300", "10..max | 40", "1..5 | 10..20 | 30", "120..127 | 128", "min..max | 300", "1..5 | 6", "20 | 21", "10..20 | 25..30", "5 | 10..20 | 21", "max | 300", "1..5|10..20|max"},
	"%L": {"5..10 | 12", "10..max | 40", "1..5 | 10..20 | 30", "10 | 11", "min..max | 30", "20 | 21", "5 | 10..20 | 21", "max | 300"},
	"%N": {"0", "1", "-1", "-0", "18", "19", "255", "256", "2147483647", "2147483648", "4294967295", "4294967296", "9223372036854775807", "9223372036854775808", "18446744073709551615", "18446744073709551616", "-18446744073709551615", "unbounded", "0x10", "1.5", "a", "\"\""},
	"%R": {"1..5", "min..max", "5..1", "1..2..3", "0..18446744073709551615|18446744073709551615", "-0..5", "1|2|3", "max..min", "1.5..2.5", "a", "", "|", "-9223372036854775808..9223372036854775807", "1..5|3..8"},
	"%A": {"a", "k", "true", "false", "user", "2020-01-01", "1.1", "\"a b\"", "\"\"", "x:y"},
}

// Hazards: templates filled at random, 1-3 per set, plus generated company.
func Hazards(j *job.Job, s *job.Sink) {
	for i := j.Start; i < j.Start+j.Count; i++ {
		r := prng.For(j.Seed, "C01", "hazards", i)
		cd := caseDesc{Family: "hazards"}
		n := 1 + r.Intn(3)
		all := append(append([]string{}, hazards...), layoutHazards...)
		for k := 0; k < n; k++ {
			t := all[int(i+int64(k)*7)%len(all)]
			if k > 0 {
				t = all[r.Intn(len(all))]
				t = strings.Replace(t, "module m ", fmt.Sprintf("module m%d ", k), 1)
			}
			for {
				ix := strings.Index(t, "%")
				if ix < 0 || ix+2 > len(t) {
					break
				}
				key := t[ix : ix+2]
				opts := fill[key]
				if opts == nil {
					t = t[:ix] + "pct" + t[ix+1:]
					continue
				}
				t = t[:ix] + opts[r.Intn(len(opts))] + t[ix+2:]
			}
			if r.Intn(2) == 0 {
				t = decorate(r, t)
			}
			cd.Texts = append(cd.Texts, t)
			cd.Names = append(cd.Names, fmt.Sprintf("h%d.yang", k))
		}
		if r.Intn(12) == 0 {
			// towers: every level refers twice (or three times) to the level below, through
			// unions, typedef chains, groupings or identities - work that doubles per level
			// unless results, and failures, are remembered
			depth := 18 + r.Intn(30)
			fan := 2 + r.Intn(2)
			var b strings.Builder
			b.WriteString("module tw { namespace \"urn:tw\"; prefix tw; yang-version 1.1;\n")
			switch r.Intn(4) {
			case 0:
				fmt.Fprintf(&b, "typedef t0 { type %s; }\n", fill["%T"][r.Intn(len(fill["%T"]))])
				for k := 1; k <= depth; k++ {
					fmt.Fprintf(&b, "typedef t%d { type union {", k)
					for f := 0; f < fan; f++ {
						fmt.Fprintf(&b, " type t%d;", k-1)
					}
					b.WriteString(" } }\n")
				}
				fmt.Fprintf(&b, "leaf l { type t%d; }\n", depth)
			case 1:
				// the expansion of such a tower is legitimately exponential in size (and
				// goyang converts every grouping, used or not), so it stays low
				depth = 4 + r.Intn(10)
				if fan == 3 && depth > 8 {
					depth = 8
				}
				fmt.Fprintf(&b, "grouping g0 { leaf x { type %s; } }\n", fill["%T"][r.Intn(len(fill["%T"]))])
				for k := 1; k <= depth; k++ {
					fmt.Fprintf(&b, "grouping g%d {", k)
					for f := 0; f < fan; f++ {
						fmt.Fprintf(&b, " container c%d { uses g%d; }", f, k-1)
					}
					b.WriteString(" }\n")
				}
				fmt.Fprintf(&b, "uses g%d;\n", depth)
			case 2:
				b.WriteString("identity i0 { base nosuchbase; }\n")
				for k := 1; k <= depth; k++ {
					fmt.Fprintf(&b, "identity i%d {", k)
					for f := 0; f < fan && f < k; f++ {
						fmt.Fprintf(&b, " base i%d;", k-1-f)
					}
					b.WriteString(" }\n")
				}
				fmt.Fprintf(&b, "leaf l { type identityref { base i%d; } }\n", depth)
			default:
				fmt.Fprintf(&b, "typedef t0 { type string { pattern \"[a\"; length \"5..1\"; } }\n")
				for k := 1; k <= depth; k++ {
					fmt.Fprintf(&b, "typedef t%d { type union { type t%d { length \"1..%d\"; } type t%d; type union { type t%d; } } }\n", k, k-1, k, k-1, k-1)
				}
				fmt.Fprintf(&b, "leaf l { type t%d; } leaf-list ll { type t%d; }\n", depth, depth-1)
			}
			b.WriteString("}\n")
			cd.Texts = append(cd.Texts, b.String())
			cd.Names = append(cd.Names, "tw.yang")
		}
		if r.Intn(200) == 0 {
			// long plain chains: one or two thousand identities, each derived from the one
			// before (nothing wrong with them; the list of the first holds all the others).
			// Work per identity that grows with the square of what is below it adds up.
			n := 1200 + r.Intn(1500)
			var b strings.Builder
			b.WriteString("module ch { namespace \"urn:ch\"; prefix ch;\n  identity i0;\n")
			for k := 1; k < n; k++ {
				fmt.Fprintf(&b, "  identity i%d { base i%d; }\n", k, k-1)
			}
			b.WriteString("  leaf l { type identityref { base i0; } }\n}\n")
			cd.Texts = append(cd.Texts, b.String())
			cd.Names = append(cd.Names, "ch.yang")
			s.Count("long_identity_chains", 1)
		}
		if r.Intn(4) == 0 {
			cd.Texts = append(cd.Texts, `module n { namespace "urn:n"; prefix n; typedef t { type string; } grouping g { leaf gl { type t; } } container c { leaf d { type string; } } }`)
			cd.Names = append(cd.Names, "n.yang")
		}
		cd.Files = r.Intn(8) == 0
		runOne(j, s, i, cd)
		if i%3000 == 0 {
			s.Sample(1, cd)
		}
	}
}

// Lexical: pathological texts for the lexer and the generic parser.
// Deep: texts nested so deeply that recursion proportional to nesting exhausts the
// goroutine stack (recorded finding c01-nesting-depth-exhausts-the-stack). Two cases: a
// module of 1.2 million nested containers (the syntax tree builder recurses once per
// level), and 9 million nested generic statements (the parser does).
func Deep(j *job.Job, s *job.Sink) {
	for i := j.Start; i < j.Start+j.Count; i++ {
		var t string
		n := 0
		switch i % 2 {
		case 0:
			n = 1200000
			t = "module m { namespace \"urn:m\"; prefix m; " + strings.Repeat("container c { ", n) + strings.Repeat("} ", n) + "}"
		default:
			n = 9000000
			t = strings.Repeat("a{", n) + strings.Repeat("}", n)
		}
		s.Current(i, map[string]any{"family": "deep", "nesting": n, "bytes": len(t), "shape": i % 2})
		s.Count("cases", 1)
		s.Count("deep_cases", 1)
		// (loaded directly: printing a statement tree of this depth back, as the other
		// families do, is quadratic in the depth by the nature of indentation)
		if i%2 == 0 {
			ms := yang.NewModules()
			if err := ms.Parse(t, "deep.yang"); err == nil {
				ms.Process()
			}
		} else {
			yang.Parse(t, "deep.yang")
		}
		s.Count("deep_cases_survived", 1)
	}
}

func Lexical(j *job.Job, s *job.Sink) {
	limit := 64 << 10
	if j.Tier == "thorough" {
		limit = 1 << 20
	}
	for i := j.Start; i < j.Start+j.Count; i++ {
		r := prng.For(j.Seed, "C01", "lexical", i)
		size := 1 << uint(4+r.Intn(13))
		if i%50 == 0 {
			size = limit
		}
		if size > limit {
			size = limit
		}
		var t string
		switch i % 13 {
		case 12:
			// a given number of invalid escapes (1-40) in one string, or spread over several:
			// every count is a boundary for somebody's buffer
			k := 1 + int(i/13)%40
			if r.Intn(3) == 0 {
				t = "module m { namespace \"u\"; prefix m; description \"" + strings.Repeat("\\q", k) + "\"; leaf l { type string; } }"
			} else {
				t = "a \"" + strings.Repeat("\\q", k/2) + "\" { b \"" + strings.Repeat("x\\w", k-k/2) + "\"; } c;"
			}
		case 0:
			t = strings.Repeat("a{", size/2)
		case 1:
			t = strings.Repeat("a{", size/4) + strings.Repeat("}", size/4)
		case 2:
			// (the conversion of a module looks up the root of every node from the node: the
			// time is the square of the nesting depth, 1 s for 10 000 levels. A text of 256 KiB
			// is as deep as the budget of a case allows; the thorough tier's 1 MiB took more
			// than 300 CPU seconds, which says nothing that 256 KiB does not say.)
			sz := size
			if sz > 256<<10 {
				sz = 256 << 10
			}
			t = "module m { namespace \"u\"; prefix m; " + strings.Repeat("container c {", sz/26) + strings.Repeat("}", sz/26) + "}"
		case 3:
			// (the parser joins the pieces one by one: work and garbage are the square of their
			// number. 65 536 pieces say what 262 144 say; the latter ran a worker into its 8 GB
			// address-space limit when the machine was busy and the collector fell behind.)
			sz := size
			if sz > 256<<10 {
				sz = 256 << 10
			}
			t = "a " + strings.Repeat("\"x\"+", sz/4) + "\"y\";"
		case 4:
			t = "a \"" + strings.Repeat("\\q", size/2) + "\";"
		case 5:
			t = "a \"" + strings.Repeat("x", size)
		case 6:
			t = "a /* " + strings.Repeat("*", size)
		case 7:
			t = strings.Repeat("}", size)
		case 8:
			b := make([]byte, size)
			r.Read(b)
			t = string(b)
		case 9:
			t = "\xef\xbb\xbfmodule m { namespace \"u\"; prefix m; leaf \xff\xfe { type string; } \x00 }"
		case 10:
			t = "a '" + strings.Repeat("\n", size) + "' + \"" + strings.Repeat("\n\t ", size/3) + "\";"
		default:
			t = strings.Repeat("a b;\r", size/5) + strings.Repeat("// c\r\n", size/12)
		}
		cd := caseDesc{Family: "lexical", Names: []string{"l.yang"}, Texts: []string{t}}
		// log only a prefix of giant texts: the case is regenerated from (seed, index)
		s.Current(i, map[string]any{"family": "lexical", "shape": i % 13, "size": len(t), "head": t[:min(len(t), 200)]})
		s.Count("cases", 1)
		func() {
			defer func() {
				if rec := recover(); rec != nil {
					st := string(debug.Stack())
					s.Violation(i, j.CaseID(i), "C01.recovered", "panic@"+frameOf(st), fmt.Sprintf("%v in %s", rec, frameOf(st)), map[string]any{"shape": i % 13, "size": len(t)}, map[string]any{"kind": fmt.Sprint(rec), "frame": frameOf(st)})
				}
			}()
			outcome, _ := Execute(cd.Texts, cd.Names, false)
			s.Count("outcome:"+outcome, 1)
			s.Count("bytes", int64(len(t)))
		}()
	}
}

// Corpus: the repository's own YANG files, as they are and mutated.
func Corpus(j *job.Job, s *job.Sink) {
	var files []string
	for _, g := range []string{"/repo/testdata/*.yang", "/repo/testdata/subdir/*.yang", "/repo/pkg/yang/testdata/*.yang", "/repo/pkg/yang/testdata/find-file-test/*.yang"} {
		m, _ := filepath.Glob(g)
		files = append(files, m...)
	}
	var texts []string
	for _, f := range files {
		if b, err := os.ReadFile(f); err == nil {
			texts = append(texts, string(b))
		}
	}
	if len(texts) == 0 {
		return
	}
	for i := j.Start; i < j.Start+j.Count; i++ {
		r := prng.For(j.Seed, "C01", "corpus", i)
		cd := caseDesc{Family: "corpus"}
		n := 1 + r.Intn(4)
		for k := 0; k < n; k++ {
			t := texts[r.Intn(len(texts))]
			if i >= int64(len(texts)) && r.Intn(2) == 0 {
				t = mutate(r, t, argPool)
			}
			cd.Texts = append(cd.Texts, t)
			cd.Names = append(cd.Names, fmt.Sprintf("c%d.yang", k))
		}
		runOne(j, s, i, cd)
	}
}
