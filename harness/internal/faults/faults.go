// Package faults injects one semantic fault into the text of a generated module
// (as printed by schema.Print). The palette covers the different places in which
// goyang detects and records errors: typedef and type resolution (early and late
// return paths), enum and bit numbering, restrictions, grouping lookup, augment and
// deviation targets - so that "the error is reported, and reported again" is
// exercised on each of them.
package faults

import (
	"math/rand"
	"regexp"
	"strings"
)

// Kinds lists the fault kinds, in the order used by Inject.
var Kinds = []string{
	"range-outside-parent", "unknown-type", "length-out-of-order", "duplicate-enum-value",
	"fraction-digits-override", "decimal64-without-fraction-digits", "bad-pattern",
	"identityref-unknown-base", "leafref-without-path", "union-with-unknown-member",
	"bad-require-instance", "bit-position-too-large", "unknown-grouping",
	"augment-target-missing", "deviation-target-missing", "typedef-with-bad-range",
	"fraction-digits-out-of-range", "bad-default-config-value",
	"nested-union-with-unknown-member", "nested-union-through-typedef-cycle", "duplicate-union-member-with-bad-range",
	"prefixed-builtin-name",
}

var prefixLine = regexp.MustCompile(`(?m)^\s*(prefix \S+;|belongs-to \S+ \{ prefix \S+; \})\s*$`)

// afterHeader inserts stmt after the prefix / belongs-to line of the module text.
func afterHeader(t, stmt string) (string, bool) {
	loc := prefixLine.FindStringIndex(t)
	if loc == nil {
		return t, false
	}
	return t[:loc[1]] + "\n  " + stmt + t[loc[1]:], true
}

func ownPrefix(t string) string {
	if m := regexp.MustCompile(`(?m)^\s*prefix (\S+);`).FindStringSubmatch(t); m != nil {
		return m[1]
	}
	if m := regexp.MustCompile(`belongs-to \S+ \{ prefix (\S+); \}`).FindStringSubmatch(t); m != nil {
		return m[1]
	}
	return ""
}

func replaceOne(r *rand.Rand, t, old, new string) (string, bool) {
	var idxs []int
	for i := 0; ; {
		k := strings.Index(t[i:], old)
		if k < 0 {
			break
		}
		idxs = append(idxs, i+k)
		i += k + len(old)
	}
	if len(idxs) == 0 {
		return t, false
	}
	k := idxs[r.Intn(len(idxs))]
	return t[:k] + new + t[k+len(old):], true
}

// Inject returns the text with one fault of a random kind, and the kind ("" if the text
// offers no place for the kind drawn).
func Inject(r *rand.Rand, t string) (string, string) {
	kind := Kinds[r.Intn(len(Kinds))]
	anyType := func(new string) (string, bool) {
		olds := []string{"type string;", "type int8;", "type boolean;", "type uint32;"}
		r.Shuffle(len(olds), func(a, b int) { olds[a], olds[b] = olds[b], olds[a] })
		for _, o := range olds {
			if nt, ok := replaceOne(r, t, o, new); ok {
				return nt, true
			}
		}
		return t, false
	}
	var nt string
	var ok bool
	switch kind {
	case "range-outside-parent":
		nt, ok = replaceOne(r, t, "type int8;", `type int8 { range "1..500"; }`)
	case "unknown-type":
		nt, ok = anyType("type nosuchtype;")
	case "length-out-of-order":
		nt, ok = replaceOne(r, t, "type string;", `type string { length "5..2"; }`)
	case "duplicate-enum-value":
		nt, ok = anyType("type enumeration { enum a { value 1; } enum b { value 1; } }")
	case "fraction-digits-override":
		if nt, ok = anyType("type zzfd { fraction-digits 3; }"); ok {
			nt, ok = afterHeader(nt, "typedef zzfd { type decimal64 { fraction-digits 2; } }")
		}
	case "decimal64-without-fraction-digits":
		nt, ok = anyType("type decimal64;")
	case "bad-pattern":
		nt, ok = replaceOne(r, t, "type string;", `type string { pattern "[a"; }`)
	case "identityref-unknown-base":
		nt, ok = anyType("type identityref { base nosuchidentity; }")
	case "leafref-without-path":
		nt, ok = anyType("type leafref;")
	case "union-with-unknown-member":
		nt, ok = anyType("type union { type string; type nosuchmember; }")
	case "bad-require-instance":
		nt, ok = anyType("type instance-identifier { require-instance maybe; }")
	case "bit-position-too-large":
		nt, ok = anyType("type bits { bit a { position 7; } bit b { position 4294967296; } }")
	case "unknown-grouping":
		nt, ok = replaceOne(r, t, "uses ", "uses nosuchgrp; uses ")
	case "augment-target-missing":
		if p := ownPrefix(t); p != "" {
			k := strings.LastIndex(t, "}")
			nt, ok = t[:k]+"  augment \"/"+p+":zznothere\" { leaf zzq { type string; } }\n}\n", true
		}
	case "deviation-target-missing":
		if p := ownPrefix(t); p != "" {
			k := strings.LastIndex(t, "}")
			nt, ok = t[:k]+"  deviation \"/"+p+":zznothere\" { deviate not-supported; }\n}\n", true
		}
	case "typedef-with-bad-range":
		if nt, ok = anyType("type zzbr;"); ok {
			nt, ok = afterHeader(nt, `typedef zzbr { type uint8 { range "300..400"; } }`)
		}
	case "fraction-digits-out-of-range":
		nt, ok = anyType("type decimal64 { fraction-digits 19; }")
	case "nested-union-with-unknown-member":
		nt, ok = anyType("type union { type union { type nosuchinner; type string; } type int8; }")
	case "nested-union-through-typedef-cycle":
		if nt, ok = anyType("type union { type union { type zzloop; type string; } type int8; }"); ok {
			nt, ok = afterHeader(nt, "typedef zzloop { type union { type union { type zzloop; } type boolean; } }")
		}
	case "duplicate-union-member-with-bad-range":
		nt, ok = anyType(`type union { type uint8; type uint8 { range "0..300"; } }`)
	case "prefixed-builtin-name":
		if p := ownPrefix(t); p != "" {
			nt, ok = anyType("type " + p + ":string;")
		}
	case "bad-default-config-value":
		nt, ok = replaceOne(r, t, "config true;", "config maybe;")
		if !ok {
			nt, ok = replaceOne(r, t, "config false;", "config maybe;")
		}
	}
	if !ok {
		return t, ""
	}
	return nt, kind
}
