// Package w03 is the workload and monitor of C03: random statement trees over
// goyang's own keyword table (derived by reflection from the exported node
// types), a must-reject oracle computed from that table, and a reflection walker
// that pairs every AST node with its source statement by pointer identity.
package w03

import (
	"fmt"
	"math/rand"
	"reflect"
	"sort"
	"strings"

	"github.com/openconfig/goyang/pkg/yang"
	"verif/internal/job"
	"verif/internal/prng"
	"verif/internal/schema"
)

type field struct {
	tag      string
	typ      reflect.Type
	multi    bool
	required bool
	reqKind  string
}

var table = map[reflect.Type]map[string]*field{}
var kwType = map[string]reflect.Type{}
var allKw []string
var moduleType = reflect.TypeOf(&yang.Module{})

func initTable(t reflect.Type) {
	if table[t] != nil {
		return
	}
	fields := map[string]*field{}
	table[t] = fields
	st := t.Elem()
	for i := 0; i < st.NumField(); i++ {
		f := st.Field(i)
		tag := f.Tag.Get("yang")
		if tag == "" {
			continue
		}
		parts := strings.Split(tag, ",")
		name := parts[0]
		switch name {
		case "Name", "Statement", "Parent", "Ext":
			continue // names of internal fields, not YANG keywords
		}
		fd := &field{tag: name}
		for _, p := range parts[1:] {
			if p == "required" {
				fd.required = true
			}
			if strings.HasPrefix(p, "required=") {
				fd.reqKind = strings.TrimPrefix(p, "required=")
			}
		}
		switch f.Type.Kind() {
		case reflect.Ptr:
			fd.typ = f.Type
		case reflect.Slice:
			fd.typ = f.Type.Elem()
			fd.multi = true
		default:
			continue
		}
		fields[name] = fd
		kwType[name] = fd.typ
		initTable(fd.typ)
	}
}

func init() {
	initTable(moduleType)
	for k := range kwType {
		allKw = append(allKw, k)
	}
	allKw = append(allKw, "module", "submodule")
	sort.Strings(allKw)
}

type stmt struct {
	kw, arg string
	sub     []*stmt
}

var argPool = []string{"a", "b", "c", "p:a", "/a", "/p:a/p:b", "../a", "1", "0", "-1", "1..5", "min..max", "true", "false", "string", "int8", "decimal64", "enumeration", "union", "identityref", "add", "delete", "replace", "not-supported", "user", "unbounded", "2020-01-01", "input", "18446744073709551616", "1.5", "a b", "",
	// arguments with blanks at their ends or nothing else: a node is named by its statement's
	// argument exactly, not by a tidied version of it
	" ", " a", "a ", "\ta", "a\t", " a b ", "  ", "a\n", "\na", " 1..5 ", "x  "}

func gen(r *rand.Rand, kw string, depth int) *stmt {
	s := &stmt{kw: kw, arg: argPool[r.Intn(len(argPool))]}
	if r.Intn(3) == 0 {
		s.arg = fmt.Sprintf("n%d", r.Intn(6))
	}
	t := kwType[kw]
	if kw == "module" || kw == "submodule" {
		t = moduleType
	}
	if t == nil || depth > 5 {
		return s
	}
	fields := table[t]
	var names []string
	for n := range fields {
		names = append(names, n)
	}
	sort.Strings(names)
	for _, n := range names {
		f := fields[n]
		if f.required || (f.reqKind != "" && f.reqKind == kw) {
			if r.Intn(60) != 0 {
				s.sub = append(s.sub, gen(r, n, depth+1))
			} else if r.Intn(2) == 0 {
				// the mandatory substatement is absent, and an extension statement whose
				// identifier is that very keyword stands in its place: still absent
				s.sub = append(s.sub, gen(r, fmt.Sprintf("ex%d:%s", r.Intn(3), n), depth+1))
			}
		}
	}
	k := r.Intn(5)
	wide := false
	if depth <= 1 && r.Intn(10) == 0 {
		wide = true
		// wide statements: dozens of substatements, shuffled below, so that the order among
		// same-keyword siblings is checked on lists longer than a handful (a seeded change
		// sorted the substatements with an unstable sort, which moves nothing below 13)
		k = 10 + r.Intn(40)
	}
	for i := 0; i < k && len(names) > 0; i++ {
		var c string
		x := r.Intn(60)
		if wide && x < 3 && r.Intn(8) > 0 {
			x = 8 // (a wide statement with a fault in it is rejected like a narrow one; most are to be accepted)
		}
		switch {
		case x == 0:
			c = allKw[r.Intn(len(allKw))]
		case x == 1:
			c = []string{"Name", "Statement", "Parent", "Ext", "bogus", "a:b:c"}[r.Intn(6)]
		case x == 2:
			// degenerate prefixed keywords: still one colon, so still filed as extensions
			c = []string{":foo", "foo:", ":", "ex0:", ":ext1", "-:-", "ex0:ext.1-x"}[r.Intn(7)]
		case x < 8:
			c = fmt.Sprintf("ex%d:ext%d", r.Intn(3), r.Intn(3))
			if r.Intn(3) == 0 {
				// an extension named like a keyword of this very context (or any keyword):
				// it is an extension all the same, neither a duplicate nor a stand-in
				c = fmt.Sprintf("ex%d:%s", r.Intn(3), names[r.Intn(len(names))])
				if r.Intn(4) == 0 {
					c = fmt.Sprintf("ex%d:%s", r.Intn(3), allKw[r.Intn(len(allKw))])
				}
			}
		default:
			c = names[r.Intn(len(names))]
			f := fields[c]
			if f.reqKind != "" && f.reqKind != kw && (wide || r.Intn(20) != 0) {
				continue
			}
			if !f.multi && (wide || r.Intn(20) != 0) {
				dup := false
				for _, e := range s.sub {
					if e.kw == c {
						dup = true
					}
				}
				if dup {
					continue
				}
			}
		}
		if wide {
			s.sub = append(s.sub, gen(r, c, depth+4)) // shallow children
		} else {
			s.sub = append(s.sub, gen(r, c, depth+1))
		}
	}
	r.Shuffle(len(s.sub), func(a, b int) { s.sub[a], s.sub[b] = s.sub[b], s.sub[a] })
	return s
}

func (s *stmt) print(b *strings.Builder, ind string) {
	fmt.Fprintf(b, "%s%s %q", ind, s.kw, s.arg)
	if len(s.sub) == 0 {
		b.WriteString(";\n")
		return
	}
	b.WriteString(" {\n")
	for _, c := range s.sub {
		c.print(b, ind+"  ")
	}
	fmt.Fprintf(b, "%s}\n", ind)
}

func depthOf(s *stmt) int {
	d := 0
	for _, c := range s.sub {
		if x := depthOf(c); x > d {
			d = x
		}
	}
	return d + 1
}

// mustReject returns the reason the tree must be rejected ("" if the table allows it).
func mustReject(s *stmt, top bool) string {
	t := kwType[s.kw]
	if top {
		if s.kw != "module" && s.kw != "submodule" {
			return "top-level statement " + s.kw
		}
		t = moduleType
	}
	if t == nil {
		return ""
	}
	fields := table[t]
	count := map[string]int{}
	for _, c := range s.sub {
		count[c.kw]++
		f := fields[c.kw]
		if f == nil {
			if len(strings.Split(c.kw, ":")) == 2 {
				continue
			}
			return "unknown keyword " + c.kw + " under " + s.kw
		}
		if f.reqKind != "" && f.reqKind != s.kw {
			return "keyword " + c.kw + " belongs to " + f.reqKind + " only"
		}
	}
	for n, f := range fields {
		if !f.multi && count[n] > 1 {
			return "second " + n + " under " + s.kw
		}
		if (f.required || (f.reqKind != "" && f.reqKind == s.kw)) && count[n] == 0 {
			return "mandatory " + n + " missing under " + s.kw
		}
	}
	for _, c := range s.sub {
		if fields[c.kw] == nil {
			continue
		}
		if r := mustReject(c, false); r != "" {
			return r
		}
	}
	return ""
}

// ---- the walker ----

type child struct {
	tag  string
	node yang.Node
}

func children(n yang.Node) ([]child, []*yang.Statement) {
	v := reflect.ValueOf(n).Elem()
	t := v.Type()
	var out []child
	var exts []*yang.Statement
	for i := 0; i < t.NumField(); i++ {
		f := t.Field(i)
		tag := strings.Split(f.Tag.Get("yang"), ",")[0]
		if tag == "" {
			continue
		}
		fv := v.Field(i)
		switch tag {
		case "Name", "Statement", "Parent":
			continue
		case "Ext":
			exts = fv.Interface().([]*yang.Statement)
			continue
		}
		switch f.Type.Kind() {
		case reflect.Ptr:
			if !fv.IsNil() {
				out = append(out, child{tag, fv.Interface().(yang.Node)})
			}
		case reflect.Slice:
			for k := 0; k < fv.Len(); k++ {
				out = append(out, child{tag, fv.Index(k).Interface().(yang.Node)})
			}
		}
	}
	return out, exts
}

// Walk checks the one-to-one correspondence below node n built from statement st.
func Walk(n yang.Node, st *yang.Statement, parent yang.Node, top bool, nodes *int) (class, detail string) {
	*nodes++
	at := st.Location() + " (" + st.Keyword + ")"
	if n.Statement() != st {
		return "statement-link", at + ": Statement() is not the source statement"
	}
	if n.NName() != st.Argument {
		return "name", fmt.Sprintf("%s: name %q, argument %q", at, n.NName(), st.Argument)
	}
	if top && n.ParentNode() != nil || !top && n.ParentNode() != parent {
		return "parent-link", at + ": ParentNode() is not the enclosing node"
	}
	kids, exts := children(n)
	// the accessors say what the fields say (Kind() is not judged: a statement kept as a
	// plain value reports the kind "string" by design)
	if ax := n.Exts(); len(ax) != len(exts) {
		return "exts-accessor", fmt.Sprintf("%s: Exts() returns %d statements, the extension list holds %d", at, len(ax), len(exts))
	} else {
		for i := range ax {
			if ax[i] != exts[i] {
				return "exts-accessor", fmt.Sprintf("%s: Exts()[%d] is not the statement in the extension list", at, i)
			}
		}
	}
	if gr, ok := n.(interface{ Groupings() []*yang.Grouping }); ok {
		var want []yang.Node
		for _, k := range kids {
			if k.tag == "grouping" {
				want = append(want, k.node)
			}
		}
		got := gr.Groupings()
		if len(got) != len(want) {
			return "groupings-accessor", fmt.Sprintf("%s: Groupings() returns %d nodes, the field holds %d", at, len(got), len(want))
		}
		for i := range got {
			if yang.Node(got[i]) != want[i] {
				return "groupings-accessor", fmt.Sprintf("%s: Groupings()[%d] is not the node in the field", at, i)
			}
		}
	}
	if tr, ok := n.(interface{ Typedefs() []*yang.Typedef }); ok {
		var want []yang.Node
		for _, k := range kids {
			if k.tag == "typedef" {
				want = append(want, k.node)
			}
		}
		got := tr.Typedefs()
		if len(got) != len(want) {
			return "typedefs-accessor", fmt.Sprintf("%s: Typedefs() returns %d nodes, the field holds %d", at, len(got), len(want))
		}
		for i := range got {
			if yang.Node(got[i]) != want[i] {
				return "typedefs-accessor", fmt.Sprintf("%s: Typedefs()[%d] is not the node in the field", at, i)
			}
		}
	}
	sub := map[*yang.Statement]int{}
	for i, ss := range st.SubStatements() {
		sub[ss] = i
	}
	used := map[*yang.Statement]int{}
	last := map[string]int{}
	for _, k := range kids {
		ks := k.node.Statement()
		ix, ok := sub[ks]
		if !ok {
			return "foreign-child", fmt.Sprintf("%s: node under field %q does not come from a substatement", at, k.tag)
		}
		used[ks]++
		if ks.Keyword != k.tag {
			return "misfiled", fmt.Sprintf("%s: statement %q filed under %q", at, ks.Keyword, k.tag)
		}
		if li, ok := last[k.tag]; ok && ix < li {
			return "sibling-order", fmt.Sprintf("%s: %q siblings out of source order", at, k.tag)
		}
		last[k.tag] = ix
		if c, d := Walk(k.node, ks, n, false, nodes); c != "" {
			return c, d
		}
	}
	lastExt := -1
	for _, e := range exts {
		ix, ok := sub[e]
		if !ok {
			return "foreign-extension", at + ": extension list holds a statement that is not a substatement"
		}
		used[e]++
		if len(strings.Split(e.Keyword, ":")) != 2 {
			return "unprefixed-extension", fmt.Sprintf("%s: %q in the extension list", at, e.Keyword)
		}
		if ix < lastExt {
			return "extension-order", at + ": extensions out of source order"
		}
		lastExt = ix
	}
	for _, ss := range st.SubStatements() {
		if used[ss] != 1 {
			return "dropped-or-duplicated", fmt.Sprintf("%s: substatement %q %q at %s is represented %d times", at, ss.Keyword, ss.Argument, ss.Location(), used[ss])
		}
	}
	return "", ""
}

// Run generates trees.
func Run(j *job.Job, s *job.Sink) {
	for c := j.Start; c < j.Start+j.Count; c++ {
		r := prng.For(j.Seed, "C03", j.Family, c)
		top := "module"
		switch x := r.Intn(30); {
		case x == 0:
			top = allKw[r.Intn(len(allKw))]
		case x == 1:
			top = []string{"bogus", "Name", "x:y"}[r.Intn(3)]
		case x < 9:
			top = "submodule"
		}
		t := gen(r, top, 0)
		var b strings.Builder
		t.print(&b, "")
		// one text in eight holds a second top-level statement (a module, a submodule, now
		// and then something else): every statement of a source is built, and one that is
		// refused makes the load fail
		var t2 *stmt
		if r.Intn(8) == 0 {
			top2 := []string{"module", "module", "submodule", "container", "leaf", "bogus"}[r.Intn(6)]
			t2 = gen(r, top2, 0)
			t2.arg = "second" + t2.arg
			t2.print(&b, "")
			s.Count("texts_with_two_top_level_statements", 1)
		}
		text := b.String()
		if c%64 == 0 {
			s.Current(c, map[string]string{"text": text})
		}
		s.Count("trees", 1)
		want := mustReject(t, true)
		if want == "" && t2 != nil {
			want = mustReject(t2, true)
		}
		var err error
		panicked := ""
		ms := yang.NewModules()
		func() {
			defer func() {
				if rec := recover(); rec != nil {
					panicked = fmt.Sprint(rec)
				}
			}()
			err = ms.Parse(text, "t.yang")
		}()
		viol := func(class, detail string, facts map[string]any) {
			s.Current(c, map[string]string{"text": text})
			s.Violation(c, j.CaseID(c), "C03.ast", class, detail, map[string]string{"text": text}, facts)
		}
		facts := map[string]any{"must_reject": want}
		switch {
		case panicked != "":
			viol("panic", panicked, facts)
		case want != "" && err == nil:
			s.Count("nontrivial", 1)
			viol("accepts-must-reject", "accepted although: "+want, facts)
		case err != nil:
			if want != "" {
				s.Count("rejected_as_required", 1)
				s.Count("nontrivial", 1)
				s.Seen("must_reject_classes", strings.Join(strings.Fields(want)[:2], " "))
			} else {
				s.Count("rejected_for_other_reasons", 1)
			}
		default:
			s.Count("accepted", 1)
			if len(t.sub) > 12 {
				s.Count("accepted_with_more_than_12_substatements", 1)
			}
			if depthOf(t) >= 3 {
				s.Count("nontrivial", 1)
			}
			nodes := 0
			walked := map[*yang.Module]bool{}
			for _, mm := range []map[string]*yang.Module{ms.Modules, ms.SubModules} {
				for _, m := range mm {
					if walked[m] {
						continue
					}
					walked[m] = true
					if cl, d := Walk(m, m.Statement(), nil, true, &nodes); cl != "" {
						viol(cl, d, facts)
					}
				}
			}
			if want2 := 1 + map[bool]int{true: 1}[t2 != nil]; len(walked) != want2 {
				viol("dropped-or-duplicated", fmt.Sprintf("the text has %d top-level statements, the set holds %d modules", want2, len(walked)), facts)
			}
			s.Count("nodes_paired", int64(nodes))
			if c%5000 == 0 {
				s.Sample(1, map[string]string{"text": text[:min(len(text), 700)]})
			}
		}
	}
}

// Processed is the second family of C03: generated module sets (with extension statements on
// type statements, the openconfig posix-pattern among them, preceded now and then by another
// extension statement) are loaded, and the syntax trees are walked twice: as built, and again
// after Process has resolved everything. Resolution reads the trees; they must still mirror
// their statements afterwards (a seeded change filtered a node's extension list in place).
func Processed(j *job.Job, s *job.Sink) {
	for c := j.Start; c < j.Start+j.Count; c++ {
		r := prng.For(j.Seed, "C03", "processed", c)
		g := &schema.Gen{R: r, Typedefs: true, Posix: true, IfFeatures: r.Intn(2) == 0}
		g.Build()
		ms := yang.NewModules()
		var cs []map[string]string
		texts := map[string]string{"openconfig-extensions.yang": schema.OCXText}
		for _, m := range g.Mods {
			t := schema.Print(m)
			// other extension statements in front of (and behind) the posix-patterns
			var b strings.Builder
			for _, line := range strings.SplitAfter(t, "\n") {
				if strings.Contains(line, "ocx:posix-pattern") {
					ind := line[:len(line)-len(strings.TrimLeft(line, " "))]
					if r.Intn(2) == 0 {
						b.WriteString(ind + "ocx:note \"before\";\n")
					}
					b.WriteString(line)
					if r.Intn(3) == 0 {
						b.WriteString(ind + "zzx:remark \"after\";\n")
					}
					continue
				}
				b.WriteString(line)
			}
			texts[m.Name+".yang"] = b.String()
		}
		// One set in three also has a module whose submodule includes another one that the
		// module itself does not list (nested includes): linking reads the include lists and
		// must leave them as they were written.
		if c%3 == 0 {
			texts["zznest.yang"] = "module zznest {\n  namespace \"urn:zznest\";\n  prefix zn;\n  include zznesta;\n  leaf top { type ta; }\n}\n"
			texts["zznesta.yang"] = "submodule zznesta {\n  belongs-to zznest { prefix zn; }\n  include zznestb;\n  typedef ta { type tb; }\n  leaf la { type string; }\n}\n"
			texts["zznestb.yang"] = "submodule zznestb {\n  belongs-to zznest { prefix zn; }\n  typedef tb { type int8; }\n  leaf lb { type string; }\n}\n"
			s.Count("processed_sets_with_nested_includes", 1)
		}
		var names []string
		for n := range texts {
			names = append(names, n)
		}
		sort.Strings(names)
		for _, n := range names {
			cs = append(cs, map[string]string{"name": n, "text": texts[n]})
		}
		s.Current(c, cs)
		s.Count("trees", 1)
		s.Count("processed_sets", 1)
		ok := true
		for _, n := range names {
			if err := ms.Parse(texts[n], n); err != nil {
				ok = false // (a prefix zzx that nothing declares is fine for the builder; anything else is the generator's)
				s.Count("processed_sets_not_loaded", 1)
				break
			}
		}
		if !ok {
			continue
		}
		walkAll := func(when string) bool {
			for _, mm := range []map[string]*yang.Module{ms.Modules, ms.SubModules} {
				for key, m := range mm {
					if key != m.FullName() && mm[m.FullName()] != nil {
						continue
					}
					nodes := 0
					if cl, d := Walk(m, m.Statement(), nil, true, &nodes); cl != "" {
						s.Violation(c, j.CaseID(c), "C03.ast", cl+"-"+when, when+": "+d, cs, map[string]any{"when": when})
						return false
					}
					s.Count("nodes_paired", int64(nodes))
				}
			}
			return true
		}
		if !walkAll("as-built") {
			continue
		}
		func() {
			defer func() { recover() }() // a crash is C01's subject
			ms.Process()
		}()
		if walkAll("after-process") {
			s.Count("accepted", 1)
			s.Count("nontrivial", 1)
			s.Count("sets_walked_again_after_process", 1)
		}
	}
}
