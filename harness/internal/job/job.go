// Package job defines what the driver hands to a worker process and what the
// worker reports back.
package job

import (
	"bufio"
	"encoding/json"
	"fmt"
	"os"
	"sync"
	"syscall"
	"time"
)

// A Job is one shard of one workload family of one property.
type Job struct {
	Property string            `json:"property"`
	Family   string            `json:"family"`
	Tier     string            `json:"tier"`
	Seed     int64             `json:"seed"`
	Start    int64             `json:"start"` // first case index
	Count    int64             `json:"count"` // number of cases (0 = family decides, e.g. one enumeration shard)
	Shard    int               `json:"shard"` // shard number and total for enumerations
	Shards   int               `json:"shards"`
	Params   map[string]string `json:"params,omitempty"`
	Replay   bool              `json:"replay,omitempty"` // verbose single-case run
}

// CaseID names one case so that it can be regenerated.
func (j *Job) CaseID(index int64) string {
	return fmt.Sprintf("%s/%s/seed%d/%d", j.Property, j.Family, j.Seed, index)
}

// A Record is one line of a worker's results file.
type Record struct {
	Type string `json:"type"` // "violation", "stat", "sample", "note"

	// violation
	Monitor string          `json:"monitor,omitempty"` // which monitor fired
	Class   string          `json:"class,omitempty"`   // coarse class of the discrepancy
	Detail  string          `json:"detail,omitempty"`  // human readable
	Case    json.RawMessage `json:"case,omitempty"`    // replayable description of the case
	CaseID  string          `json:"case_id,omitempty"`
	Index   int64           `json:"index,omitempty"`
	Facts   map[string]any  `json:"facts,omitempty"` // structured facts for known-finding predicates

	// stat: additive counters and sets
	Counters map[string]int64    `json:"counters,omitempty"`
	Sets     map[string][]string `json:"sets,omitempty"` // small sets to union (e.g. error classes seen)

	// sample: an actual case written out for the evidence file
	Sample any `json:"sample,omitempty"`
}

// A Sink writes records and keeps the current-case file up to date.
type Sink struct {
	mu       sync.Mutex
	f        *os.File
	w        *bufio.Writer
	curPath  string
	Counters map[string]int64
	sets     map[string]map[string]bool
	samples  int
	perClass map[string]int

	sinceFlush int

	// per-case CPU watchdog
	caseCPU    float64 // process CPU seconds when the current case started
	caseIndex  int64
	caseDesc   []byte
	caseID     func(int64) string
	CaseBudget float64 // CPU seconds one case may use (0 = no watchdog)

	// idle watchdog: a case during which the process consumes no CPU at all is blocked
	IdleExempt   bool    // set by workloads that wait for child processes
	progressCPU  float64 // process CPU seconds at the last observed progress
	progressWall time.Time
}

// IdleLimit is how long a case may stay open while the whole process consumes (next to)
// no CPU time before it is declared blocked.
const IdleLimit = 45 * time.Second

// IdleCPU is the CPU time below which a window of IdleLimit counts as idle: half a percent
// of the window. An idle Go process uses about a tenth of a percent for its housekeeping; a
// call that is merely slow on a machine with a load of a thousand still gets more than this.
const IdleCPU = 0.25

func cpuSeconds() float64 {
	var ru syscall.Rusage
	if syscall.Getrusage(syscall.RUSAGE_SELF, &ru) != nil {
		return 0
	}
	return float64(ru.Utime.Sec+ru.Stime.Sec) + float64(ru.Utime.Usec+ru.Stime.Usec)/1e6
}

// Watch starts the per-case CPU watchdog: when the case announced by the last
// Current call has consumed more than budget CPU seconds of this process, a
// violation is recorded for it and the worker exits with status 3 (the driver
// resumes behind that case). CPU time, not wall-clock time, is measured, so the
// verdict does not depend on how loaded the machine is; the wall-clock ticker
// only decides how often the CPU clock is read.
func (s *Sink) Watch(budget float64, caseID func(int64) string) {
	s.mu.Lock()
	s.CaseBudget = budget
	s.caseID = caseID
	s.caseCPU = cpuSeconds()
	s.mu.Unlock()
	go func() {
		for range time.Tick(200 * time.Millisecond) {
			s.mu.Lock()
			now := cpuSeconds()
			used := now - s.caseCPU
			// A call that is blocked (a goroutine waiting on a channel nobody serves, a read
			// from a pipe nobody writes) consumes no CPU, so the CPU budget never runs out.
			// It is told from a slow call by just that: a slow call on a loaded machine still
			// runs now and then and its CPU clock advances. The wall clock only paces the
			// reading of the CPU clock.
			if s.progressWall.IsZero() {
				s.progressCPU, s.progressWall = now, time.Now()
			}
			idle := false
			if time.Since(s.progressWall) > IdleLimit {
				// one window is over: less than IdleCPU in it means nothing ran but the
				// runtime's own housekeeping (about 1 ms per second, measured)
				idle = now-s.progressCPU < IdleCPU
				s.progressCPU, s.progressWall = now, time.Now()
			}
			if s.CaseBudget > 0 && !s.IdleExempt && s.caseDesc != nil && idle {
				s.Counters["violations"]++
				s.write(&Record{Type: "violation", Monitor: "process", Class: "blocked", Detail: fmt.Sprintf("the case has been open for more than %v during which the process consumed less than %.2f s of CPU time: the call is blocked, not slow", IdleLimit, IdleCPU), Case: s.caseDesc, CaseID: s.caseID(s.caseIndex), Index: s.caseIndex})
				s.flushLocked()
				s.w.Flush()
				os.Exit(3)
			}
			if s.CaseBudget > 0 && used > s.CaseBudget {
				s.Counters["violations"]++
				s.write(&Record{Type: "violation", Monitor: "process", Class: "cpu-budget-exceeded", Detail: fmt.Sprintf("one case used more than %.0f CPU seconds without returning", s.CaseBudget), Case: s.caseDesc, CaseID: s.caseID(s.caseIndex), Index: s.caseIndex})
				s.flushLocked()
				s.w.Flush()
				os.Exit(3)
			}
			s.mu.Unlock()
		}
	}()
}

// MaxPerClass is how many violation records of one (monitor, class) a worker
// writes out in full; the rest are only counted.
const MaxPerClass = 20

// NewSink creates results.jsonl and current-case in dir.
func NewSink(dir string) (*Sink, error) {
	f, err := os.Create(dir + "/results.jsonl")
	if err != nil {
		return nil, err
	}
	return &Sink{f: f, w: bufio.NewWriter(f), curPath: dir + "/current-case", Counters: map[string]int64{}, sets: map[string]map[string]bool{}}, nil
}

// Current records the case that is about to run; it is written with a single
// write so that a crash leaves either the previous or the new content.
func (s *Sink) Current(index int64, desc any) {
	b, _ := json.Marshal(map[string]any{"index": index, "case": desc})
	os.WriteFile(s.curPath, b, 0o644)
	s.mu.Lock()
	s.caseCPU = cpuSeconds()
	s.progressCPU, s.progressWall = s.caseCPU, time.Now()
	s.caseIndex = index
	s.caseDesc, _ = json.Marshal(desc)
	s.sinceFlush++
	if s.sinceFlush >= 8 {
		s.flushLocked()
	}
	s.mu.Unlock()
}

// flushLocked writes the counters gathered since the last flush as a delta record, so
// that a worker that dies later does not take its observations with it.
func (s *Sink) flushLocked() {
	s.sinceFlush = 0
	if len(s.Counters) == 0 && len(s.sets) == 0 {
		return
	}
	sets := map[string][]string{}
	for k, m := range s.sets {
		for v := range m {
			sets[k] = append(sets[k], v)
		}
	}
	s.write(&Record{Type: "stat", Counters: s.Counters, Sets: sets})
	s.Counters = map[string]int64{}
	s.sets = map[string]map[string]bool{}
}

func (s *Sink) write(r *Record) {
	b, _ := json.Marshal(r)
	s.w.Write(b)
	s.w.WriteByte('\n')
	s.w.Flush()
}

// Violation reports a violation.
func (s *Sink) Violation(index int64, caseID, monitor, class, detail string, c any, facts map[string]any) {
	s.mu.Lock()
	defer s.mu.Unlock()
	s.Counters["violations"]++
	s.Counters["violations:"+monitor+"/"+class]++
	if s.perClass == nil {
		s.perClass = map[string]int{}
	}
	s.perClass[monitor+"/"+class]++
	if s.perClass[monitor+"/"+class] > MaxPerClass {
		return
	}
	cb, _ := json.Marshal(c)
	s.write(&Record{Type: "violation", Monitor: monitor, Class: class, Detail: detail, Case: cb, CaseID: caseID, Index: index, Facts: facts})
}

// Count adds to a counter.
func (s *Sink) Count(name string, n int64) {
	s.mu.Lock()
	s.Counters[name] += n
	s.mu.Unlock()
}

// Seen adds a member to a named set (kept small by the caller).
func (s *Sink) Seen(set, member string) {
	s.mu.Lock()
	m := s.sets[set]
	if m == nil {
		m = map[string]bool{}
		s.sets[set] = m
	}
	if len(m) < 2000 {
		m[member] = true
	}
	s.mu.Unlock()
}

// Sample writes one actual case for the evidence file (at most max per worker).
func (s *Sink) Sample(max int, v any) {
	s.mu.Lock()
	defer s.mu.Unlock()
	if s.samples >= max {
		return
	}
	s.samples++
	s.write(&Record{Type: "sample", Sample: v})
}

// Close flushes the counters.
func (s *Sink) Close() {
	s.mu.Lock()
	defer s.mu.Unlock()
	s.flushLocked()
	s.write(&Record{Type: "note", Detail: "done"})
	s.w.Flush()
	s.f.Close()
}
