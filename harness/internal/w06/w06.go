// Package w06 is the independence workload of C06: a grouping is used several
// times; one instance is changed by a deviation or an augment written in another
// module; every other instance (and a later-loaded further use) must dump exactly
// as it does without that module.
package w06

import (
	"fmt"
	"reflect"
	"sort"
	"strings"

	"github.com/openconfig/goyang/pkg/yang"
	"verif/internal/dump"
	"verif/internal/job"
	"verif/internal/prng"
)

// usesExtensions: each use of a grouping may carry extension statements of its own, which
// are added to the nodes it copies in. The grouping's node has nb extension statements
// already (nb = 0..11, so that the slice behind them has spare room for some nb and none for
// others); every instance must show those plus its own, and the grouping itself only those.
func usesExtensions(j *job.Job, s *job.Sink, c int64) {
	r := prng.For(j.Seed, "C06", "uses-extensions", c)
	nb := int(c/8) % 12
	nu := 2 + r.Intn(3)
	var b strings.Builder
	b.WriteString("module x { namespace \"urn:x\"; prefix x; extension e1 { argument v; }\n  grouping g { leaf l { type string;")
	var base []string
	for k := 0; k < nb; k++ {
		fmt.Fprintf(&b, " x:e1 \"b%d\";", k)
		base = append(base, fmt.Sprintf("b%d", k))
	}
	b.WriteString(" } container k { leaf deep { type string; } } }\n")
	for u := 0; u < nu; u++ {
		fmt.Fprintf(&b, "  container c%d { uses g { x:e1 \"from-c%d\"; } }\n", u, u)
	}
	b.WriteString("}\n")
	cs := map[string]string{"x.yang": b.String()}
	s.Count("uses_extension_cases", 1)
	ms := yang.NewModules()
	if err := ms.Parse(b.String(), "x.yang"); err != nil {
		s.Violation(c, j.CaseID(c), "C06.independence", "unexpected-error", err.Error(), cs, nil)
		return
	}
	if errs := ms.Process(); len(errs) > 0 {
		s.Violation(c, j.CaseID(c), "C06.independence", "unexpected-error", errs[0].Error(), cs, nil)
		return
	}
	args := func(e *yang.Entry) string {
		var xs []string
		for _, x := range e.Exts {
			xs = append(xs, x.Argument)
		}
		return strings.Join(xs, " ")
	}
	root := yang.ToEntry(ms.Modules["x"])
	for u := 0; u < nu; u++ {
		want := strings.Join(append(append([]string{}, base...), fmt.Sprintf("from-c%d", u)), " ")
		for _, leaf := range []*yang.Entry{root.Dir[fmt.Sprintf("c%d", u)].Dir["l"], root.Dir[fmt.Sprintf("c%d", u)].Dir["k"]} {
			w := want
			if leaf.Name == "k" {
				w = fmt.Sprintf("from-c%d", u)
			}
			if got := args(leaf); got != w {
				s.Violation(c, j.CaseID(c), "C06.independence", "instances-share-extensions", fmt.Sprintf("c%d/%s carries the extension arguments [%s], its grouping and its uses say [%s]", u, leaf.Name, got, w), cs, map[string]any{"extensions_on_the_grouping_node": nb})
				return
			}
		}
	}
	if g := ms.Modules["x"].Grouping[0]; true {
		if got := args(yang.ToEntry(g).Dir["l"]); got != strings.Join(base, " ") {
			s.Violation(c, j.CaseID(c), "C06.independence", "grouping-changed-by-a-use", fmt.Sprintf("the grouping's own leaf carries [%s] after it was used, it defines [%s]", got, strings.Join(base, " ")), cs, nil)
		}
	}
}

// foreignPrefixUses: a prefix is bound per file. Module m imports lib under a prefix that its
// submodule s declares as its belongs-to prefix (so in s.yang it names m itself). A uses
// written in m.yang with that prefix names a grouping of lib and nothing else: lib's
// grouping when there is one (also when s has one of the same name), an unknown grouping
// when there is none (also when s has one).
func foreignPrefixUses(j *job.Job, s *job.Sink, c int64) {
	r := prng.For(j.Seed, "C06", "foreign-prefix-uses", c)
	pfx := []string{"x", "l", "zz"}[r.Intn(3)]
	inLib := r.Intn(2) == 0
	inSub := r.Intn(3) > 0
	lib := "module lib { namespace \"urn:lib\"; prefix l; grouping other { leaf o { type string; } }"
	if inLib {
		lib += " grouping same { leaf froml { type string; } }"
	}
	lib += " }\n"
	sub := fmt.Sprintf("submodule s { belongs-to m { prefix %s; } grouping onlys { leaf os { type string; } }", pfx)
	if inSub {
		sub += " grouping same { leaf wrong { type string; } }"
	}
	sub += fmt.Sprintf(" container sc { uses %s:onlys; uses onlys2; } grouping onlys2 { leaf os2 { type string; } } }\n", pfx)
	m := fmt.Sprintf("module m { namespace \"urn:m\"; prefix m; import lib { prefix %s; } include s; container c { uses %s:same; } container d { uses %s:other; uses onlys; uses m:onlys2; } }\n", pfx, pfx, pfx)
	cs := map[string]string{"lib.yang": lib, "s.yang": sub, "m.yang": m}
	s.Count("foreign_prefix_uses_cases", 1)
	ms := yang.NewModules()
	for _, n := range [][2]string{{"lib.yang", lib}, {"s.yang", sub}, {"m.yang", m}} {
		if err := ms.Parse(n[1], n[0]); err != nil {
			s.Violation(c, j.CaseID(c), "C06.independence", "unexpected-error", err.Error(), cs, nil)
			return
		}
	}
	errs := ms.Process()
	switch {
	case !inLib && len(errs) == 0:
		got := []string{}
		for k := range yang.ToEntry(ms.Modules["m"]).Dir["c"].Dir {
			got = append(got, k)
		}
		s.Violation(c, j.CaseID(c), "C06.independence", "foreign-prefix-resolved-in-a-submodule", fmt.Sprintf("uses %s:same in m.yang (where %s names lib, which has no such grouping) was accepted; /m/c holds %v", pfx, pfx, got), cs, map[string]any{"submodule_has_the_name": inSub})
	case inLib && len(errs) > 0:
		s.Violation(c, j.CaseID(c), "C06.independence", "unexpected-error", errs[0].Error(), cs, nil)
	case inLib:
		root := yang.ToEntry(ms.Modules["m"])
		if root.Dir["c"].Dir["froml"] == nil || root.Dir["c"].Dir["wrong"] != nil {
			s.Violation(c, j.CaseID(c), "C06.independence", "foreign-prefix-resolved-in-a-submodule", fmt.Sprintf("uses %s:same in m.yang did not expand the grouping of lib", pfx), cs, map[string]any{"submodule_has_the_name": inSub})
		}
		for _, want := range [][2]string{{"d", "o"}, {"d", "os"}, {"d", "os2"}, {"sc", "os"}, {"sc", "os2"}} {
			if root.Dir[want[0]] == nil || root.Dir[want[0]].Dir[want[1]] == nil {
				s.Violation(c, j.CaseID(c), "C06.independence", "missing-copy", fmt.Sprintf("/m/%s/%s is missing", want[0], want[1]), cs, nil)
				return
			}
		}
	}
}

// usesConstraints: the top-level nodes of a grouping state when, must, status and reference of
// their own, and so do some of the uses statements. Every copy keeps what its definition
// says (a copy is faithful in its constraints too) and gains what its uses says; a uses that
// says nothing adds nothing.
func usesConstraints(j *job.Job, s *job.Sink, c int64) {
	r := prng.For(j.Seed, "C06", "uses-constraints", c)
	kws := []string{"when", "must", "status", "reference"}
	val := func(kw, who string) string {
		switch kw {
		case "status":
			return map[string]string{"node": "deprecated", "uses": "obsolete"}[who]
		case "reference":
			return "ref of the " + who
		}
		return "../" + who + "-" + kw
	}
	own := map[string]bool{}
	for _, kw := range kws {
		own[kw] = r.Intn(2) == 0
	}
	var b strings.Builder
	b.WriteString("module x { namespace \"urn:x\"; prefix x;\n  grouping g {\n    leaf l { type string;")
	for _, kw := range kws {
		if own[kw] {
			fmt.Fprintf(&b, " %s %q;", kw, val(kw, "node"))
		}
	}
	b.WriteString(" }\n    container k {")
	for _, kw := range kws {
		if own[kw] {
			fmt.Fprintf(&b, " %s %q;", kw, val(kw, "node"))
		}
	}
	b.WriteString(" leaf deep { type string; } }\n  }\n")
	nu := 2 + r.Intn(3)
	usesSays := make([]map[string]bool, nu)
	for u := 0; u < nu; u++ {
		usesSays[u] = map[string]bool{}
		fmt.Fprintf(&b, "  container c%d { uses g", u)
		var subs []string
		for _, kw := range []string{"when", "status", "reference"} { // (a uses has no must)
			if r.Intn(2) == 0 {
				usesSays[u][kw] = true
				subs = append(subs, fmt.Sprintf("%s %q;", kw, val(kw, "uses")))
			}
		}
		if len(subs) > 0 {
			fmt.Fprintf(&b, " { %s }", strings.Join(subs, " "))
		} else {
			b.WriteString(";")
		}
		b.WriteString(" }\n")
	}
	b.WriteString("}\n")
	cs := map[string]string{"x.yang": b.String()}
	s.Count("uses_constraint_cases", 1)
	ms := yang.NewModules()
	if err := ms.Parse(b.String(), "x.yang"); err != nil {
		s.Violation(c, j.CaseID(c), "C06.independence", "unexpected-error", err.Error(), cs, nil)
		return
	}
	if errs := ms.Process(); len(errs) > 0 {
		s.Violation(c, j.CaseID(c), "C06.independence", "unexpected-error", errs[0].Error(), cs, nil)
		return
	}
	root := yang.ToEntry(ms.Modules["x"])
	for u := 0; u < nu; u++ {
		for _, name := range []string{"l", "k"} {
			e := root.Dir[fmt.Sprintf("c%d", u)].Dir[name]
			for _, kw := range kws {
				var got []string
				for _, v := range e.Extra[kw] {
					if n, ok := v.(yang.Node); ok && n != nil && !reflect.ValueOf(n).IsNil() {
						got = append(got, n.NName())
					} else {
						got = append(got, fmt.Sprint(v))
					}
				}
				var want []string
				if own[kw] {
					want = append(want, val(kw, "node"))
				}
				if usesSays[u][kw] {
					want = append(want, val(kw, "uses"))
				}
				sort.Strings(got)
				sort.Strings(want)
				if strings.Join(got, " | ") != strings.Join(want, " | ") {
					s.Violation(c, j.CaseID(c), "C06.independence", "copy-constraints", fmt.Sprintf("c%d/%s: the %s statements of the copy are %q, its definition and its uses say %q", u, name, kw, got, want), cs, map[string]any{"keyword": kw})
					return
				}
			}
		}
	}
	s.Count("instances_compared", int64(nu))
}

// Run generates cases.
func Run(j *job.Job, s *job.Sink) {
	for c := j.Start; c < j.Start+j.Count; c++ {
		if c%8 == 0 {
			usesExtensions(j, s, c)
		}
		if c%8 == 4 {
			usesConstraints(j, s, c)
		}
		if c%8 == 1 {
			foreignPrefixUses(j, s, c)
		}
		r := prng.For(j.Seed, "C06", "independence", c)
		nd := 1 + r.Intn(5)
		var defs string
		for i := 0; i < nd; i++ {
			defs += fmt.Sprintf(" default d%d;", i)
		}
		body := fmt.Sprintf(`list l { key k; leaf k { type string; } min-elements %d; max-elements %d; leaf v { type string; } }
    leaf-list ll { type string;%s }
    leaf lf { type string; default q; }
    leaf m { type string; mandatory true; }
    leaf tdl { type btd; }
    container c { config false; leaf inner { type int8; } }
    choice ch { leaf sh { type string; } }`, 1+r.Intn(3), 5+r.Intn(3), defs)
		if r.Intn(2) == 0 {
			body += "\n    container act { action a { input { leaf x { type string; } } output { leaf y { type string; } } } }"
		}
		nest := r.Intn(2) == 0
		grp := "grouping g {\n    " + body + "\n  }"
		if nest {
			grp = "grouping inner {\n    " + body + "\n  }\n  grouping g { container w { uses inner; } uses inner; }"
		}
		base := fmt.Sprintf("module b { yang-version 1.1; namespace \"urn:b\"; prefix b;\n  typedef btd { type string; default tdv; }\n  %s\n  container u1 { uses g; }\n  container u2 { uses g; }\n  list u3 { key id; leaf id { type string; } uses g; }\n}\n", grp)
		later := "module z { yang-version 1.1; namespace \"urn:z\"; prefix z; import b { prefix b; } container u4 { uses b:g; } }\n"
		// the change, targeting instance u1 only
		var ch []string
		n := 1 + r.Intn(4)
		opts := []string{
			"deviation /b:u1/b:l { deviate replace { min-elements 7; } }",
			"deviation /b:u1/b:l { deviate replace { max-elements 9; } }",
			"deviation /b:u1/b:ll { deviate add { default X1; } }",
			"deviation /b:u1/b:ll { deviate replace { default Y1; } }",
			"deviation /b:u1/b:lf { deviate replace { default Z; } }",
			"deviation /b:u1/b:lf { deviate delete { default q; } }",
			"deviation /b:u1/b:m { deviate replace { mandatory false; } }",
			"deviation /b:u1/b:tdl { deviate add { mandatory true; } }",
			"deviation /b:u1/b:tdl { deviate add { mandatory false; } }",
			"deviation /b:u1/b:tdl { deviate add { default own; } }",
			"deviation /b:u1/b:c { deviate replace { config true; } }",
			"deviation /b:u1/b:c/b:inner { deviate replace { type string; } }",
			"deviation /b:u1/b:l/b:v { deviate not-supported; }",
			"deviation /b:u1/b:ch/b:sh { deviate not-supported; }",
			"augment /b:u1/b:c { leaf extra { type string; } }",
			"augment /b:u1/b:l { container more { leaf deep { type string; } } }",
			"augment /b:u1/b:ch { leaf other { type string; } }",
		}
		used := map[string]bool{}
		for i := 0; i < n; i++ {
			o := opts[r.Intn(len(opts))]
			key := strings.Fields(o)[1]
			if used[key] {
				continue
			}
			used[key] = true
			ch = append(ch, o)
		}
		// a second deviating statement on a sibling instance's leaf-list, to expose shared backing arrays
		twin := ""
		if r.Intn(2) == 0 {
			twin = " deviation /b:u2/b:ll { deviate add { default X2; } }"
		}
		change := "module d { yang-version 1.1; namespace \"urn:d\"; prefix d; import b { prefix b; }\n  " + strings.Join(ch, "\n  ") + "\n}\n"
		twinMod := ""
		if twin != "" {
			// deviations are applied module by module in name order: the twin's module is named
			// a or t, so that it comes before or after the changing module d (whichever of two
			// appends into one shared array comes second wins)
			tn := []string{"a", "t"}[r.Intn(2)]
			twinMod = "module " + tn + " { yang-version 1.1; namespace \"urn:" + tn + "\"; prefix " + tn + "; import b { prefix b; }" + twin + " }\n"
		}
		cs := map[string]string{"b.yang": base, "z.yang": later, "d.yang": change, "t.yang": twinMod}
		s.Current(c, cs)
		s.Count("cases", 1)
		s.Count("nontrivial", 1)
		run := func(withChange bool) (map[string]string, error) {
			ms := yang.NewModules()
			if err := ms.Parse(base, "b.yang"); err != nil {
				return nil, err
			}
			if twinMod != "" {
				if err := ms.Parse(twinMod, "t.yang"); err != nil {
					return nil, err
				}
			}
			if withChange {
				if err := ms.Parse(change, "d.yang"); err != nil {
					return nil, err
				}
			}
			if err := ms.Parse(later, "z.yang"); err != nil {
				return nil, err
			}
			if errs := ms.Process(); len(errs) > 0 {
				return nil, errs[0]
			}
			// half of the runs process the set a second time: what a change did to one
			// instance must not have leaked into what the next run builds the others from
			if c%2 == 1 {
				if errs := ms.Process(); len(errs) > 0 {
					return nil, errs[0]
				}
			}
			out := map[string]string{}
			b := yang.ToEntry(ms.Modules["b"])
			for _, u := range []string{"u1", "u2", "u3"} {
				out[u] = dump.Entry(b.Dir[u], false)
			}
			out["u4"] = dump.Entry(yang.ToEntry(ms.Modules["z"]).Dir["u4"], false)
			return out, nil
		}
		var a, b map[string]string
		var ea, eb error
		func() {
			defer func() {
				if rec := recover(); rec != nil {
					ea = fmt.Errorf("panic: %v", rec)
				}
			}()
			a, ea = run(false)
			b, eb = run(true)
		}()
		if ea != nil || eb != nil {
			s.Violation(c, j.CaseID(c), "C06.independence", "unexpected-error", fmt.Sprintf("without change: %v; with change: %v", ea, eb), cs, nil)
			continue
		}
		if a["u1"] == b["u1"] {
			s.Violation(c, j.CaseID(c), "C06.independence", "change-not-applied", "the targeted instance did not change", cs, nil)
		}
		for _, u := range []string{"u2", "u3", "u4"} {
			s.Count("instances_compared", 1)
			if a[u] != b[u] {
				la, lb := "", ""
				x, y := strings.Split(a[u], "\n"), strings.Split(b[u], "\n")
				for i := 0; i < len(x) && i < len(y); i++ {
					if x[i] != y[i] {
						la, lb = x[i], y[i]
						break
					}
				}
				if len(la) > 170 {
					la = la[:170]
				}
				if len(lb) > 170 {
					lb = lb[:170]
				}
				s.Violation(c, j.CaseID(c), "C06.independence", "other-instance-changed", fmt.Sprintf("instance %s changed when only u1 was targeted: %q -> %q", u, la, lb), cs, map[string]any{"instance": u, "has_action": strings.Contains(body, "action"), "changed_line": lb})
				break
			}
		}
		if c%2000 == 0 {
			s.Sample(1, cs)
		}
	}
}
