package w02

import (
	"fmt"
	"regexp"
	"sort"
	"strings"

	"github.com/openconfig/goyang/pkg/yang"
	"verif/internal/job"
	"verif/internal/prng"
	"verif/internal/rfclex"
	"verif/internal/schema"
)

var posInErr = regexp.MustCompile(`([A-Za-z0-9_.%:/-]*[A-Za-z0-9_.%/-]+\.yang):(\d+):(\d+)`)

func stmtStarts(ss []*rfclex.Stmt, out map[string]string) {
	for _, s := range ss {
		out[fmt.Sprintf("%d:%d", s.Line, s.Col)] = s.Keyword
		stmtStarts(s.Sub, out)
	}
}

// Semantic is the third part of C16: generated module sets that process cleanly get one
// semantic fault injected; every file:line:col in the resulting errors must be the start of
// a statement of that file (per the reference reader), and the designated statement must be named.
func Semantic(j *job.Job, s *job.Sink) {
	for c := j.Start; c < j.Start+j.Count; c++ {
		r := prng.For(j.Seed, "C16", "semantic", c)
		g := &schema.Gen{R: r, Typedefs: true}
		g.Build()
		texts := map[string]string{}
		var names []string
		for _, m := range g.Mods {
			texts[m.Name+".yang"] = schema.Print(m)
			names = append(names, m.Name+".yang")
		}
		load := func() ([]error, bool) {
			ms := yang.NewModules()
			var errs []error
			for _, n := range names {
				if err := ms.Parse(texts[n], n); err != nil {
					errs = append(errs, err)
				}
			}
			panicked := false
			func() {
				defer func() {
					if recover() != nil {
						panicked = true
					}
				}()
				errs = append(errs, ms.Process()...)
			}()
			return errs, panicked
		}
		if errs, p := load(); len(errs) > 0 || p {
			s.Count("base_set_not_clean", 1)
			continue
		}
		fn := names[r.Intn(len(names))]
		t := texts[fn]
		fault, want := "", []string{}
		desig := -1 // byte offset of the designated statement's keyword in t, when known
		repl := func(old, new, kw string) bool {
			var idxs []int
			for i := 0; ; {
				k := strings.Index(t[i:], old)
				if k < 0 {
					break
				}
				idxs = append(idxs, i+k)
				i += k + len(old)
			}
			if len(idxs) == 0 {
				return false
			}
			k := idxs[r.Intn(len(idxs))]
			t = t[:k] + new + t[k+len(old):]
			if kw != "" {
				desig = k + strings.Index(new, kw)
			}
			return true
		}
		// replIn is repl restricted to occurrences directly inside a statement of one of the
		// given keywords (a member type of a union is not mandatory, the type of a leaf is)
		replIn := func(old, new, kw string, parents map[string]bool) bool {
			var idxs []int
			for i := 0; ; {
				k := strings.Index(t[i:], old)
				if k < 0 {
					break
				}
				if parents[enclosingKeyword(t, i+k)] {
					idxs = append(idxs, i+k)
				}
				i += k + len(old)
			}
			if len(idxs) == 0 {
				return false
			}
			k := idxs[r.Intn(len(idxs))]
			t = t[:k] + new + t[k+len(old):]
			return true
		}
		// prefixes this file can use
		ownPfx, impPfx := "", []string{}
		if m := regexp.MustCompile(`(?m)^\s*prefix (\S+);`).FindStringSubmatch(t); m != nil {
			ownPfx = m[1]
		}
		if m := regexp.MustCompile(`belongs-to \S+ \{ prefix (\S+); \}`).FindStringSubmatch(t); m != nil {
			ownPfx = m[1]
		}
		for _, m := range regexp.MustCompile(`import \S+ \{ prefix (\S+); \}`).FindAllStringSubmatch(t, -1) {
			impPfx = append(impPfx, m[1])
		}
		switch r.Intn(18) {
		case 17:
			// an enum without a value after the highest value there is: the error names that
			// enum, not the one that holds the maximum (which may stand one or two enums back)
			mid := ""
			if r.Intn(2) == 0 {
				mid = "      enum mid {\n        value 5;\n      }\n"
			}
			body := "    type enumeration {\n      enum low;\n      enum hi {\n        value 2147483647;\n      }\n" + mid + "      enum next;\n    }\n"
			ins := "  leaf zzen {\n" + body + "  }\n"
			if r.Intn(2) == 0 {
				ins = "  typedef zzent {\n" + body + "  }\n"
			}
			if k := strings.LastIndex(t, "}"); k > 0 {
				t = t[:k] + ins + t[k:]
				desig = k + strings.Index(ins, "enum next")
				fault, want = "enum without a value after the highest value", []string{"enum"}
			}
		case 16:
			// a deviate that cannot be applied (it deletes a default the leaf does not have), in
			// a deviating module added to the set, now and then next to a second one of the same
			// kind: the error names the deviate statement
			res := &schema.Resolver{Mods: g.Mods}
			res.Resolve()
			var leaves []*schema.X
			var walk func(x *schema.X)
			walk = func(x *schema.X) {
				if x.Kind == "leaf" && x.Parent != nil {
					leaves = append(leaves, x)
				}
				var ks []string
				for k := range x.Children {
					ks = append(ks, k)
				}
				sort.Strings(ks)
				for _, k := range ks {
					walk(x.Children[k])
				}
			}
			var rms []*schema.Mod
			for m := range res.Roots {
				rms = append(rms, m)
			}
			sort.Slice(rms, func(a, b int) bool { return rms[a].Name < rms[b].Name })
			if len(res.Errs) == 0 && len(rms) > 0 {
				rm := rms[r.Intn(len(rms))]
				walk(res.Roots[rm])
				if len(leaves) > 0 {
					x := leaves[r.Intn(len(leaves))]
					path := ""
					for n := x; n.Parent != nil; n = n.Parent {
						path = "/t:" + n.Name + path
					}
					fn = "zzdev.yang"
					t = fmt.Sprintf("module zzdev {\n  namespace \"urn:zzdev\";\n  prefix zzdev;\n  import %s { prefix t; }\n  deviation %s {\n    deviate delete {\n      default zzzznosuchdefault;\n    }\n  }\n}\n", rm.Name, path)
					names = append(names, fn)
					desig = strings.Index(t, "    deviate delete") + 4
					fault, want = "deviate that cannot be applied", []string{"deviate"}
				}
			}
		case 15:
			// an identity, or an identityref, whose base does not resolve (own prefix or none)
			pf := ""
			if ownPfx != "" && r.Intn(2) == 0 {
				pf = ownPfx + ":"
			}
			ins := fmt.Sprintf("  identity zzi {\n    base %snosuchbase;\n  }\n", pf)
			if r.Intn(2) == 0 {
				ins = fmt.Sprintf("  leaf zzir {\n    type identityref {\n      base %snosuchbase;\n    }\n  }\n", pf)
			}
			if k := strings.LastIndex(t, "}"); k > 0 {
				t = t[:k] + ins + t[k:]
				desig = k + strings.Index(ins, "base")
				fault, want = "identity base that does not resolve", []string{"base"}
			}
		case 14:
			// a range that the range of the typedef it restricts does not admit: the error is about
			// this range statement, not about the typedef's (a seeded change added the position of
			// the typedef's range to the message). Only typedefs whose name is defined once in the
			// whole set, so that the reference cannot be shadowed.
			gap := map[string]string{"0..100|200..300": "150", "0|2|4..4294967294": "1", "-128..-1": "0", "-128..-100|-3|7..127": "0", "1..10": "11"}
			var cands [][2]string
			for _, n := range names {
				for _, m := range regexp.MustCompile(`typedef (t\d+) \{\s+type u?int\d+ \{\s+range "([^"]+)";`).FindAllStringSubmatch(texts[n], -1) {
					defs := 0
					for _, n2 := range names {
						defs += strings.Count(texts[n2], "typedef "+m[1]+" {")
					}
					if gap[m[2]] != "" && defs == 1 {
						cands = append(cands, [2]string{m[1], gap[m[2]]})
					}
				}
			}
			if len(cands) > 0 {
				cd := cands[r.Intn(len(cands))]
				var files []string
				re := regexp.MustCompile(`type (\S+:)?` + cd[0] + `;`)
				for _, n := range names {
					if re.MatchString(texts[n]) {
						files = append(files, n)
					}
				}
				if len(files) > 0 {
					fn = files[r.Intn(len(files))]
					t = texts[fn]
					locs := re.FindAllStringIndex(t, -1)
					loc := locs[r.Intn(len(locs))]
					old := t[loc[0]:loc[1]]
					nw := strings.TrimSuffix(old, ";") + " { range \"" + cd[1] + "\"; }"
					t = t[:loc[0]] + nw + t[loc[1]:]
					desig = loc[0] + strings.Index(nw, "range")
					fault, want = "range outside the range of the typedef", []string{"range"}
				}
			}
		case 13:
			// a bad type inside a deviate statement of a deviating module added to the set
			res := &schema.Resolver{Mods: g.Mods}
			res.Resolve()
			var leaves []*schema.X
			var walk func(x *schema.X)
			walk = func(x *schema.X) {
				if x.Kind == "leaf" && x.Parent != nil {
					leaves = append(leaves, x)
				}
				var ks []string
				for k := range x.Children {
					ks = append(ks, k)
				}
				sort.Strings(ks)
				for _, k := range ks {
					walk(x.Children[k])
				}
			}
			var rms []*schema.Mod
			for m := range res.Roots {
				rms = append(rms, m)
			}
			sort.Slice(rms, func(a, b int) bool { return rms[a].Name < rms[b].Name })
			if len(res.Errs) == 0 && len(rms) > 0 {
				rm := rms[r.Intn(len(rms))]
				walk(res.Roots[rm])
				if len(leaves) > 0 {
					x := leaves[r.Intn(len(leaves))]
					path := ""
					for n := x; n.Parent != nil; n = n.Parent {
						path = "/t:" + n.Name + path
					}
					bt := []string{"nosuchtype", "t:nosuchtype", "uint8 {\n        range \"1..300\";\n      }", "string {\n        length \"5..2\";\n      }"}[r.Intn(4)]
					kw := []string{"type", "type", "range", "length"}[map[bool]int{true: 0, false: 2}[!strings.Contains(bt, "range")]]
					if strings.Contains(bt, "length") {
						kw = "length"
					}
					if !strings.Contains(bt, "{") {
						kw = "type"
						bt += ";"
					}
					fn = "zzdev.yang"
					t = fmt.Sprintf("module zzdev {\n  namespace \"urn:zzdev\";\n  prefix zzdev;\n  import %s { prefix t; }\n  deviation %s {\n    deviate replace {\n      type %s\n    }\n  }\n}\n", rm.Name, path, bt)
					names = append(names, fn)
					desig = strings.Index(t, "      type ") + 6
					if kw != "type" {
						desig = strings.Index(t, kw+" \"")
					}
					fault, want = "bad type in a deviate statement", []string{kw}
				}
			}
		case 12:
			// a statement that only the other kind of module may have: unknown here, like
			// any made-up keyword, and to be reported where it stands
			isSub := strings.Contains(t, "belongs-to ")
			line := regexp.MustCompile(`(?m)^(\s*)(prefix \S+;|belongs-to \S+ \{ prefix \S+; \})\s*$`).FindStringIndex(t)
			if line != nil {
				ins := "\n  belongs-to zzowner { prefix zzo; }"
				kw := "belongs-to"
				if isSub {
					ins, kw = "\n  namespace \"urn:zzextra\";", "namespace"
				}
				t = t[:line[1]] + ins + t[line[1]:]
				desig = line[1] + strings.Index(ins, kw)
				fault, want = "substatement of the other module kind", []string{kw}
			}
		case 0:
			if repl("type string;", "type nosuchtype;", "type") {
				fault, want = "bad type name", []string{"type"}
			}
		case 1:
			if repl("uses ", "uses nosuchgrp; uses ", "uses") {
				fault, want = "unknown grouping", []string{"uses"}
			}
		case 2:
			if repl("type int8;", "type int8 { range \"1..500\"; }", "range") {
				fault, want = "bad range", []string{"range"}
			}
		case 3:
			if repl("type string;", "type string { length \"5..2\"; }", "length") {
				fault, want = "bad length", []string{"length"}
			}
		case 4:
			if repl("type boolean;", "type enumeration { enum a { value 1; } enum b { value 1; } }", "enum b") {
				fault, want = "bad enum value", []string{"enum"}
			}
		case 5:
			if replIn("type string;", "", "", map[string]bool{"leaf": true, "leaf-list": true, "typedef": true}) {
				fault, want = "missing mandatory substatement", []string{"leaf", "leaf-list", "typedef"}
			}
		case 6:
			if len(impPfx) > 0 && repl("type string;", "type "+impPfx[r.Intn(len(impPfx))]+":nosuchtype;", "type") {
				fault, want = "bad type name behind an import prefix", []string{"type"}
			}
		case 7:
			if ownPfx != "" && repl("type string;", "type "+ownPfx+":nosuchtype;", "type") {
				fault, want = "bad type name behind the own prefix", []string{"type"}
			}
		case 8:
			if len(impPfx) > 0 && repl("uses ", "uses "+impPfx[r.Intn(len(impPfx))]+":nosuchgrp; uses ", "uses") {
				fault, want = "unknown grouping behind an import prefix", []string{"uses"}
			}
		case 9:
			if repl("type boolean;", "type bits { bit a { position 7; } bit b { position 4294967296; } }", "bit b") {
				fault, want = "bad bit position", []string{"bit"}
			}
		case 10:
			if repl("type int8;", "type int8 { range \"5..1\"; }", "range") {
				fault, want = "range out of order", []string{"range"}
			}
		default:
			if repl("type uint32;", "type uint32; frobnicate 1;", "frobnicate") {
				fault, want = "unknown substatement", []string{"frobnicate"}
			}
		}
		if fault == "" {
			continue
		}
		// One faulty file in five has a name that is more than a bare file name: a path with a
		// drive letter, a URN, percent signs as URL-encoded names have them. The name is part of
		// every position and must come out as it went in.
		if r.Intn(5) == 0 {
			nn := []string{"C:/models/", "urn:x:", "dir%20x/", "100%", "rev%%20", "a%sb/", "%d-"}[r.Intn(7)] + fn
			delete(texts, fn)
			for k := range names {
				if names[k] == fn {
					names[k] = nn
				}
			}
			fn = nn
			s.Count("fault_sets_with_an_unusual_source_name", 1)
		}
		texts[fn] = t
		cs := map[string]any{"fault": fault, "file": fn, "text": t}
		s.Current(c, cs)
		s.Count("fault_sets", 1)
		s.Count("nontrivial", 1)
		starts := map[string]map[string]string{}
		for n, tx := range texts {
			ref := rfclex.Read(tx)
			starts[n] = map[string]string{}
			stmtStarts(ref.Forest, starts[n])
		}
		errs, panicked := load()
		if panicked {
			continue // C01's subject
		}
		if len(errs) == 0 {
			s.Violation(c, j.CaseID(c), "C16.semantic", "fault-not-reported", fault+" was not reported at all", cs, map[string]any{"fault": fault})
			continue
		}
		hit := false
		desigPos := ""
		if desig >= 0 {
			// line and character column (both 1-based) of the designated keyword
			head := t[:desig]
			line := 1 + strings.Count(head, "\n")
			col := 1 + len([]rune(head[strings.LastIndex(head, "\n")+1:]))
			desigPos = fmt.Sprintf("%d:%d", line, col)
		}
		for _, e := range errs {
			for _, m := range posInErr.FindAllStringSubmatch(e.Error(), -1) {
				s.Count("positions_checked", 1)
				kw, ok := starts[m[1]][m[2]+":"+m[3]]
				if !ok {
					s.Violation(c, j.CaseID(c), "C16.semantic", "position-not-a-statement-start", fmt.Sprintf("%s in %q", m[0], e.Error()), cs, map[string]any{"fault": fault})
					continue
				}
				named := false
				for _, w := range want {
					if kw == w {
						named = true
					}
					if kw == w && m[1] == fn && (desigPos == "" || desigPos == m[2]+":"+m[3]) {
						hit = true
					}
				}
				if named && len(errs) == 1 && desigPos != "" && (m[1] != fn || desigPos != m[2]+":"+m[3]) {
					// (and a second position of the right kind elsewhere is not it either)
					s.Violation(c, j.CaseID(c), "C16.semantic", "position-names-another-statement", fmt.Sprintf("%s: the error %q names the %s statement at %s, the faulty one is at %s:%s", fault, e.Error(), kw, m[0], fn, desigPos), cs, map[string]any{"fault": fault})
				}
				if !named && len(errs) == 1 {
					// the one fault of the set is a statement of the kinds in want and this is
					// the one error it caused (a fault that makes a module unloadable causes
					// further errors where the module is used; those are left alone): a position
					// in it that names a statement of another kind (the enclosing one, say) is
					// not the position of what is wrong
					s.Violation(c, j.CaseID(c), "C16.semantic", "position-names-another-statement", fmt.Sprintf("%s: the error %q names the %s statement at %s", fault, e.Error(), kw, m[0]), cs, map[string]any{"fault": fault})
				}
			}
		}
		if !hit {
			s.Violation(c, j.CaseID(c), "C16.semantic", "designated-statement-not-named", fmt.Sprintf("%s: no error names the %v statement at %s:%s; first error %q", fault, want, fn, desigPos, errs[0].Error()), cs, map[string]any{"fault": fault})
		}
		s.Count("fault:"+fault, 1)
	}
}

// enclosingKeyword returns the keyword of the statement whose block contains offset k of
// a text printed by schema.Print (no braces inside strings there).
func enclosingKeyword(t string, k int) string {
	depth := 0
	for i := k - 1; i >= 0; i-- {
		switch t[i] {
		case '}':
			depth++
		case '{':
			if depth == 0 {
				line := t[strings.LastIndex(t[:i], "\n")+1 : i]
				f := strings.Fields(line)
				if len(f) > 0 {
					return f[0]
				}
				return ""
			}
			depth--
		}
	}
	return ""
}
