// Package w02 holds the workloads and monitors of C02 (generic parsing agrees
// with the RFC 7950 section 6 reading) and C16 (positions).
package w02

import (
	"fmt"
	"math/rand"
	"strconv"
	"strings"

	"github.com/openconfig/goyang/pkg/yang"
	"verif/internal/job"
	"verif/internal/prng"
	"verif/internal/rfclex"
)

const file = "t.yang"

// cmpForest compares the reference forest with goyang's; pos selects whether
// statement positions are compared as well.
func cmpForest(a []*rfclex.Stmt, b []*yang.Statement, pos bool) (class, detail string) {
	return cmpForest2(a, b, pos, !pos)
}

// cmpForest2: values selects whether argument strings are compared (C02) or only
// the shape and positions (C16).
func cmpForest2(a []*rfclex.Stmt, b []*yang.Statement, pos, values bool) (class, detail string) {
	if len(a) != len(b) {
		return "forest-shape", fmt.Sprintf("%d statements, reference has %d", len(b), len(a))
	}
	for i := range a {
		x, y := a[i], b[i]
		arg, has := y.Arg()
		if x.Keyword != y.Keyword {
			return "keyword", fmt.Sprintf("keyword %q, reference %q", y.Keyword, x.Keyword)
		}
		if x.HasArg != has {
			return "argument-presence", fmt.Sprintf("statement %q: has argument %v, reference %v", x.Keyword, has, x.HasArg)
		}
		if values && x.Arg != arg {
			return "argument-value", fmt.Sprintf("statement %q: argument %q, reference %q", x.Keyword, arg, x.Arg)
		}
		if pos {
			if want := fmt.Sprintf("%s:%d:%d", file, x.Line, x.Col); y.Location() != want {
				return "statement-position", fmt.Sprintf("statement %q at %s, reference %s", x.Keyword, y.Location(), want)
			}
		}
		if c, d := cmpForest2(x.Sub, y.SubStatements(), pos, values); c != "" {
			return c, d
		}
	}
	return "", ""
}

// Verdict is what CheckText found.
type Verdict struct {
	OutOfClaim string
	Accepted   bool
	Class      string
	Detail     string
	Statements int
}

func countStmts(ss []*rfclex.Stmt) int {
	n := len(ss)
	for _, s := range ss {
		n += countStmts(s.Sub)
	}
	return n
}

// CheckText compares yang.Parse with the reference reader on one text.
// errpos: also require the first error line to name the reference's fault position
// (only meaningful for single-fault texts).
func CheckText(text string, pos, errpos bool) Verdict {
	ref := rfclex.Read(text)
	if ref.OutOfClaim != "" {
		return Verdict{OutOfClaim: ref.OutOfClaim}
	}
	ss, err := yang.Parse(text, file)
	switch {
	case ref.Reject && err == nil:
		return Verdict{Class: "accepts-malformed", Detail: fmt.Sprintf("accepted, reference rejects (%s at %d:%d)", ref.RejectKind, ref.RLine, ref.RCol)}
	case !ref.Reject && err != nil:
		return Verdict{Class: "rejects-wellformed", Detail: "rejected, reference accepts: " + strings.ReplaceAll(err.Error(), "\n", " | ")}
	case ref.Reject:
		if ss != nil {
			return Verdict{Class: "statements-on-rejection", Detail: "statements returned together with an error"}
		}
		if strings.TrimSpace(err.Error()) == "" {
			return Verdict{Class: "empty-error", Detail: "rejected with an empty error"}
		}
		if errpos && ref.RLine != 0 {
			first := strings.SplitN(err.Error(), "\n", 2)[0]
			want := fmt.Sprintf("%s:%d:%d:", file, ref.RLine, ref.RCol)
			if !strings.HasPrefix(first, want) {
				return Verdict{Class: "error-position:" + ref.RejectKind, Detail: fmt.Sprintf("first error %q, fault (%s) is at %s", first, ref.RejectKind, want)}
			}
		}
		return Verdict{}
	}
	c, d := cmpForest(ref.Forest, ss, pos)
	return Verdict{Accepted: true, Class: c, Detail: d, Statements: countStmts(ref.Forest)}
}

func nontrivial(s string) bool { return strings.ContainsAny(s, "\"'\\{}/") }

// Enum enumerates every string over params[alphabet] up to params[maxlen], wrapped in
// params[pre] and params[suf]; shard k of n takes the strings whose first two symbols
// index to k mod n.
func Enum(j *job.Job, s *job.Sink) {
	syms := []rune(j.Params["alphabet"])
	maxLen, _ := strconv.Atoi(j.Params["maxlen"])
	pre, suf := j.Params["pre"], j.Params["suf"]
	monitor := "C02.enum"
	var idx int64
	check := func(cur []rune) {
		text := pre + string(cur) + suf
		idx++
		if idx%8192 == 0 {
			s.Current(idx, map[string]any{"text": text})
		}
		v := CheckText(text, false, false)
		s.Count("texts", 1)
		switch {
		case v.OutOfClaim != "":
			s.Count("out_of_claim", 1)
			return
		case v.Accepted:
			s.Count("accepted", 1)
		default:
			s.Count("rejected", 1)
		}
		if nontrivial(text) {
			s.Count("nontrivial", 1)
		}
		if v.Class != "" {
			s.Violation(idx, j.CaseID(idx), monitor, v.Class, v.Detail, map[string]any{"text": text}, map[string]any{"text": text})
		}
		if idx%200003 == 0 && v.Accepted {
			s.Sample(2, map[string]any{"text": text, "accepted": v.Accepted})
		}
	}
	var rec func(cur []rune, depth int)
	rec = func(cur []rune, depth int) {
		check(cur)
		if depth == maxLen {
			return
		}
		for _, c := range syms {
			rec(append(cur, c), depth+1)
		}
	}
	// shard on the first two symbols
	if j.Shard == 0 {
		check(nil)
	}
	k := 0
	for _, a := range syms {
		if maxLen >= 1 && j.Shard == 0 {
			check([]rune{a})
		}
		if maxLen < 2 {
			continue
		}
		for _, b := range syms {
			if k%j.Shards == j.Shard {
				rec([]rune{a, b}, 2)
			}
			k++
		}
	}
}

// ---- grammar-directed random texts with layout noise (C02 family c/d, C16) ----

type gen struct {
	r        *rand.Rand
	maxDepth int // nesting bound of this text (3 usually; one text in eight goes to 8-40)
}

// longComment is a block comment of one to five lines (LF or CR LF line ends, tabs and
// multi-byte characters inside); whatever follows it stands on its closing line.
func (g *gen) longComment() string {
	c := "/*"
	for n := g.r.Intn(5); n >= 0; n-- {
		c += []string{"", " x", "	y ", "é日", "* /", " // "}[g.r.Intn(6)]
		if n > 0 {
			c += []string{"\n", "\n", "\r\n", "\n\n"}[g.r.Intn(4)]
		}
	}
	return c + "*/"
}

func (g *gen) ws() string {
	if g.r.Intn(6) == 0 {
		return []string{" ", "", "\t"}[g.r.Intn(3)] + g.longComment() + []string{" ", "", "\t"}[g.r.Intn(3)]
	}
	opts := []string{" ", "  ", "\t", "\n", " \n\t", " /* c */ ", " // x\n", "\r\n", " /* m\n l */ ", "\n\n   ", "\t \t", " /**/ ", "/* é */ "}
	return opts[g.r.Intn(len(opts))]
}

func (g *gen) optws() string {
	if g.r.Intn(3) == 0 {
		return ""
	}
	return g.ws()
}

func (g *gen) word() string {
	if g.r.Intn(5) == 0 {
		return g.wild()
	}
	opts := []string{"a", "bb", "ccc", "é", "日本", "k:v", "/p/q", "x-y", "+", "p+q", "1..5", "*", "𝔘x", "a/b", "..", "min..max", "/", "/", "a/"}
	return opts[g.r.Intn(len(opts))]
}

// wild is an unquoted token of one to three characters from all over Unicode, biased
// towards code points that a byte-minded lexer confuses with syntax: those whose low
// byte is a blank, a quote or a punctuation character (U+4E0D ends in 0x0D, U+2020 in
// 0x20, U+013B in ';' ...), the replacement character (what a decoder returns for broken
// input, but also a character of its own), NUL, the byte-order mark, Unicode blanks and
// line separators (which are not YANG white space), and the last code points of planes.
func (g *gen) wild() string {
	var out []rune
	for n := 1 + g.r.Intn(3); n > 0; n-- {
		var c rune
		switch g.r.Intn(4) {
		case 0:
			low := []rune{0x09, 0x0a, 0x0d, 0x20, 0x22, 0x27, 0x3b, 0x7b, 0x7d, 0x2f, 0x2a, 0x2b, 0x5c}[g.r.Intn(13)]
			hi := rune(1 + g.r.Intn(0x10ff))
			c = hi<<8 | low
		case 1:
			c = []rune{0xfffd, 0xfffd, 0, 0xfeff, 0x85, 0xa0, 0x2028, 0x2029, 0x2009, 0x200a, 0x200d, 0x3000, 0x1680, 0xffff, 0x10ffff, 0x7f, 0x1f, 0xb, 0xc, 0x1ffff, 0xd7ff, 0xe000}[g.r.Intn(22)]
		case 2:
			c = rune(g.r.Intn(0x110000))
		default:
			c = rune(0x80 + g.r.Intn(0x2000))
		}
		if c >= 0xd800 && c < 0xe000 {
			c = 0xfffd // surrogates are not characters
		}
		if c < 0x80 && strings.ContainsRune(" \t\r\n;{}\"'/*+", c) {
			c = 'w'
		}
		out = append(out, c)
	}
	return string(out)
}

// dq builds a double-quoted string, possibly multi-line, with leading blanks of
// every relation to the strip column, trailing blanks, escapes.
func (g *gen) dq(pattern bool) string {
	var b strings.Builder
	b.WriteByte('"')
	lines := 1 + g.r.Intn(3)
	if g.r.Intn(3) == 0 {
		lines = 1
	}
	for i := 0; i < lines; i++ {
		if i > 0 {
			// trailing blanks before the break, then the break, then leading blanks
			b.WriteString([]string{"", " ", "  ", "\t", " \t "}[g.r.Intn(5)])
			b.WriteByte('\n')
			b.WriteString([]string{"", " ", "   ", "      ", "\t", "\t\t", "  \t", "            ", "\t  ", "                        "}[g.r.Intn(10)])
		}
		parts := g.r.Intn(3)
		for k := 0; k <= parts; k++ {
			switch g.r.Intn(9) {
			case 0:
				b.WriteString(`\n`)
			case 1:
				b.WriteString(`\t`)
			case 2:
				b.WriteString(`\"`)
			case 3:
				b.WriteString(`\\`)
			case 4:
				if pattern {
					b.WriteString([]string{`\d`, `\.`, `\s+`, `\{`, `\p{L}`}[g.r.Intn(5)])
				} else {
					b.WriteString(g.word())
				}
			case 5:
				b.WriteString(" ")
			case 6:
				b.WriteString("'")
			default:
				b.WriteString(g.word())
			}
		}
	}
	b.WriteByte('"')
	return b.String()
}

func (g *gen) arg(pattern bool) string {
	switch g.r.Intn(7) {
	case 0, 1:
		return g.word()
	case 2:
		return "'" + g.word() + " " + g.word() + "'"
	case 3:
		sq := "'" + g.word()
		for n := 1 + g.r.Intn(4); n > 0; n-- {
			sq += []string{"\n  ", "\n", "\r\n\t", "\n\n "}[g.r.Intn(4)] + g.word()
		}
		return sq + "'"
	case 4:
		return g.dq(pattern)
	default:
		n := 2 + g.r.Intn(2)
		if g.r.Intn(12) == 0 {
			n = 14 + g.r.Intn(40) // now and then a long one (dozens of pieces)
		}
		var parts []string
		for i := 0; i < n; i++ {
			if g.r.Intn(2) == 0 {
				parts = append(parts, g.dq(pattern))
			} else {
				parts = append(parts, "'"+g.word()+"'")
			}
		}
		sep := g.optws() + "+" + g.optws()
		return strings.Join(parts, sep)
	}
}

// realStmts are keyword / argument pairs of real YANG modules (arguments without blanks or
// quotes, so that they can be written in any quoting style).
var realStmts = [][2]string{
	{"yang-version", "1"}, {"yang-version", "1"}, {"yang-version", "1.1"}, {"yang-version", "1"}, {"module", "m"}, {"submodule", "s"},
	{"namespace", "urn:m"}, {"prefix", "m"}, {"import", "x"}, {"include", "y"}, {"belongs-to", "m"}, {"revision", "2020-01-01"},
	{"revision-date", "2020-01-01"}, {"description", "text"}, {"reference", "RFC7950"}, {"contact", "nobody"}, {"organization", "none"},
	{"container", "c"}, {"leaf", "l"}, {"leaf-list", "ll"}, {"list", "li"}, {"key", "k"}, {"type", "string"}, {"type", "enumeration"},
	{"typedef", "t"}, {"grouping", "g"}, {"uses", "g"}, {"augment", "/m:c"}, {"deviation", "/m:c"}, {"deviate", "not-supported"},
	{"config", "false"}, {"mandatory", "true"}, {"default", "d"}, {"units", "u"}, {"length", "1..5"}, {"range", "1..5"},
	{"must", "../x"}, {"when", "../y"}, {"error-message", "bad"}, {"error-app-tag", "tag"}, {"path", "../k"}, {"enum", "e"}, {"bit", "b"},
	{"value", "1"}, {"position", "0"}, {"fraction-digits", "2"}, {"identity", "i"}, {"base", "i"}, {"feature", "f"}, {"if-feature", "f"},
	{"extension", "e"}, {"argument", "a"}, {"yin-element", "true"}, {"rpc", "r"}, {"input", ""}, {"output", ""}, {"action", "a"},
	{"notification", "n"}, {"choice", "ch"}, {"case", "ca"}, {"anyxml", "ax"}, {"anydata", "ad"}, {"presence", "p"}, {"status", "deprecated"},
	{"ordered-by", "user"}, {"min-elements", "1"}, {"max-elements", "unbounded"}, {"unique", "k"}, {"modifier", "invert-match"},
	{"require-instance", "false"}, {"refine", "l"},
}

func (g *gen) stmt(depth int) string {
	kw := g.word()
	if strings.ContainsAny(kw, "+") && g.r.Intn(2) == 0 {
		kw = "kw"
	}
	if g.r.Intn(8) == 0 {
		kw = "pattern"
	}
	if g.r.Intn(24) == 0 {
		// keywords that look like "pattern" and are not: their arguments are ordinary strings,
		// with ordinary escape rules (the argument generator is told it is a pattern, so it
		// writes regular-expression escapes, which are errors here)
		kw = []string{"x:pattern", "xpattern", "oc-ext:posix-pattern", "patterns", "pattern2", "Pattern", "my:posix-pattern", "pattern:x"}[g.r.Intn(8)]
		s := kw + g.ws() + g.arg(true)
		return s + g.optws() + ";"
	}
	if kw == "pattern" && depth < 6 && g.r.Intn(2) == 0 {
		// a pattern with a block of string-valued substatements (error-message, description)
		s := kw + g.ws() + g.arg(true) + g.optws() + "{"
		for n := 1 + g.r.Intn(2); n > 0; n-- {
			s += g.optws() + []string{"error-message", "description", "x:e"}[g.r.Intn(3)] + g.ws() + g.dq(false) + g.optws() + ";"
		}
		return s + g.optws() + "}"
	}
	s := kw
	if g.r.Intn(7) == 0 {
		// statements of real YANG, keyword and argument: to the generic reader they are
		// statements like any other, whatever they mean to the later stages (a seeded
		// change made the lexer lenient about escapes after "yang-version 1")
		rs := realStmts[g.r.Intn(len(realStmts))]
		s = rs[0]
		if rs[1] != "" {
			switch g.r.Intn(3) {
			case 0:
				s += g.ws() + rs[1]
			case 1:
				s += g.ws() + "'" + rs[1] + "'"
			default:
				s += g.ws() + "\"" + rs[1] + "\""
			}
		}
	} else if g.r.Intn(4) > 0 {
		s += g.ws() + g.arg(kw == "pattern")
	}
	md := g.maxDepth
	if md == 0 {
		md = 3
	}
	if depth < md && (g.r.Intn(3) == 0 || (md > 3 && g.r.Intn(4) > 0)) {
		s += g.optws() + "{"
		n := g.r.Intn(3)
		if md > 3 && n == 0 {
			n = 1
		}
		if md > 3 && depth > 2 {
			n = 1 // deep texts are narrow, or they explode
		}
		for i := 0; i < n; i++ {
			s += g.optws() + g.stmt(depth+1)
		}
		s += g.optws() + "}"
	} else {
		s += g.optws() + ";"
	}
	return s
}

func (g *gen) text() string {
	s := ""
	n := 1 + g.r.Intn(3)
	for i := 0; i < n; i++ {
		s += g.optws() + g.stmt(0)
	}
	return s + g.optws()
}

// fault injects one lexical or syntactic fault; it returns "" when it cannot.
func (g *gen) fault(t string) (string, string) {
	switch g.r.Intn(8) {
	case 0:
		return t + "}" + g.optws(), "extra-rbrace"
	case 1, 2:
		// an unknown escape behind a randomly chosen double quote. Inside the argument of a
		// pattern statement it is legal (and kept verbatim), everywhere else - including the
		// substatements of a pattern - it is the fault; the reference reader knows which.
		var qs []int
		for i := 0; i < len(t); i++ {
			if t[i] == '"' {
				qs = append(qs, i)
			}
		}
		if len(qs) > 0 {
			ix := qs[g.r.Intn(len(qs))]
			esc := []string{"\\q", "\\d", "\\\n", "\\ ", "\\'"}[g.r.Intn(5)]
			kind := "bad-escape"
			if esc == "\\\n" {
				kind = "bad-escape-linebreak"
			}
			return t[:ix+1] + esc + t[ix+1:], kind
		}
	case 3:
		if g.r.Intn(2) == 0 {
			// the offending token is a string made of several pieces: it starts at its first piece
			return g.optws() + "\"k\"" + g.optws() + "+" + g.optws() + "'w'" + []string{"", " + \"z\""}[g.r.Intn(2)] + " x;" + t, "quoted-keyword"
		}
		return g.optws() + "\"kw\" x;" + t, "quoted-keyword"
	case 4:
		return t + "/* never closed ", "unterminated-comment"
	case 5:
		// (also as a later piece of a concatenation, with and without a blank behind the +: the
		// error names the opening quote of the piece that is not closed)
		return t + []string{"z \"never closed", "z \"a\" +\"never closed", "z 'a'+\"never closed", "z \"a\" +\n  \"never closed", "z \"a\"\t+ \"b\" +\"never closed"}[g.r.Intn(5)], "unterminated-dquote"
	case 6:
		return t + "z 'never closed", "unterminated-squote"
	case 7:
		if ix := strings.LastIndex(t, ";"); ix >= 0 {
			if g.r.Intn(2) == 0 {
				return t[:ix] + " 'q'" + g.optws() + "+" + g.optws() + "\"r\" zz;" + t[ix+1:], "missing-semi"
			}
			return t[:ix] + " 'q' zz;" + t[ix+1:], "missing-semi"
		}
	}
	return "", ""
}

// Random runs the grammar-directed family: property C02 compares values, C16 positions
// (statement positions of accepted texts, error position of single-fault texts).
func Random(j *job.Job, s *job.Sink) {
	pos := j.Property == "C16"
	monitor := j.Property + ".random"
	for i := j.Start; i < j.Start+j.Count; i++ {
		g := &gen{r: prng.For(j.Seed, j.Property, j.Family, i)}
		if g.r.Intn(8) == 0 {
			g.maxDepth = 8 + g.r.Intn(33)
			s.Count("deeply_nested_texts", 1)
		}
		t := g.text()
		if i%300 == 7 {
			// a very long first line: whatever stands on it comes after column 65536 (a long
			// single-quoted or double-quoted argument, or a long comment, ahead of it)
			n := 65500 + g.r.Intn(5000)
			switch g.r.Intn(3) {
			case 0:
				t = "x '" + strings.Repeat("y", n) + "'; " + t
			case 1:
				t = "/* " + strings.Repeat("é", n) + " */ " + t
			default:
				t = "x \"" + strings.Repeat("z\t", n/2) + "\" { " + t + " }"
			}
			s.Count("texts_with_a_line_longer_than_65535", 1)
		}
		if i%256 == 0 {
			s.Current(i, map[string]any{"text": t})
		}
		v := CheckText(t, pos, false)
		s.Count("texts", 1)
		if v.OutOfClaim != "" {
			s.Count("out_of_claim", 1)
			s.Seen("out_of_claim_reasons", v.OutOfClaim)
			continue
		}
		if v.Accepted {
			s.Count("accepted", 1)
			s.Count("statements", int64(v.Statements))
			if strings.ContainsAny(t, "\t\"") || len(t) != len([]rune(t)) {
				s.Count("nontrivial", 1)
			}
		} else {
			s.Count("generator_rejected", 1)
		}
		if v.Class != "" {
			s.Violation(i, j.CaseID(i), monitor, v.Class, v.Detail, map[string]any{"text": t}, map[string]any{"comment_or_squote_before_quote_on_line": commentBeforeQuote(t)})
			continue
		}
		if i%5000 == 0 {
			s.Sample(2, map[string]any{"text": t})
		}
		if !v.Accepted {
			continue
		}
		// single fault
		ft, kind := g.fault(t)
		if ft == "" {
			continue
		}
		fv := CheckText(ft, false, pos)
		s.Count("fault_texts", 1)
		if fv.OutOfClaim != "" {
			continue
		}
		if fv.Accepted {
			s.Count("fault_not_a_fault", 1)
			continue
		}
		s.Count("fault:"+kind, 1)
		if fv.Class != "" {
			s.Violation(i, j.CaseID(i), monitor+".fault", fv.Class, fv.Detail, map[string]any{"text": ft, "fault": kind}, map[string]any{"fault": kind})
		}
	}
}

// commentBeforeQuote reports whether some double-quoted multi-line string is preceded on
// its line by a comment or a single-quoted string (a fact used by a known-finding predicate).
func commentBeforeQuote(t string) bool {
	for _, line := range strings.Split(t, "\n") {
		q := strings.Index(line, "\"")
		if q < 0 {
			continue
		}
		head := line[:q]
		if strings.Contains(head, "*/") || strings.Contains(head, "'") {
			return true
		}
	}
	return false
}
