// Package w18 is the workload and monitor of C18: operation histories on one
// module set compared, after every Process, with the batch run of the good texts
// on a fresh set.
package w18

import (
	"fmt"
	"os"
	"path/filepath"
	"reflect"
	"sort"
	"strings"

	"github.com/openconfig/goyang/pkg/yang"
	"verif/internal/dump"
	"verif/internal/faults"
	"verif/internal/job"
	"verif/internal/prng"
	"verif/internal/schema"
)

type op struct {
	Kind string `json:"op"` // load, bad, process, read
	Name string `json:"name,omitempty"`
	Text string `json:"text,omitempty"`
}

func readWalk(ms *yang.Modules) {
	for _, m := range ms.Modules {
		root := yang.ToEntry(m)
		var walk func(e *yang.Entry, d int)
		walk = func(e *yang.Entry, d int) {
			if e == nil || d > 64 {
				return
			}
			e.InstantiatingModule()
			e.Namespace()
			e.ReadOnly()
			e.Find(e.Path())
			if e.RPC != nil {
				e.Find("input")
				e.Find("output")
				walk(e.RPC.Input, d+1)
				walk(e.RPC.Output, d+1)
			}
			for _, c := range e.Dir {
				walk(c, d+1)
			}
		}
		walk(root, 0)
	}
}

// typedefStates lists every typedef statement of the set (found by walking the ASTs through
// their keyword fields) with the state of its resolution: a typedef that no leaf uses is
// resolved by Process alone, so whether that happened shows only here.
func typedefStates(ms *yang.Modules) []string {
	var out []string
	seen := map[yang.Node]bool{}
	nodeT := reflect.TypeOf((*yang.Node)(nil)).Elem()
	var walk func(n yang.Node, d int)
	walk = func(n yang.Node, d int) {
		v := reflect.ValueOf(n)
		if n == nil || v.Kind() != reflect.Ptr || v.IsNil() || seen[n] || d > 200 {
			return
		}
		seen[n] = true
		if td, ok := n.(*yang.Typedef); ok {
			st := "unresolved"
			if y := td.YangType; y != nil {
				st = fmt.Sprintf("%s kind=%v range=%v length=%v fd=%d pat=%q units=%q def=%q/%v", y.Name, y.Kind, y.Range, y.Length, y.FractionDigits, y.Pattern, y.Units, y.Default, y.HasDefault)
				if y.Enum != nil {
					st += fmt.Sprintf(" enum=%v/%v", y.Enum.Names(), y.Enum.Values())
				}
				if y.IdentityBase != nil {
					st += fmt.Sprintf(" idbase=%s#%d", y.IdentityBase.Name, len(y.IdentityBase.Values))
				}
				st += fmt.Sprintf(" members=%d", len(y.Type))
			}
			out = append(out, yang.Source(td)+" typedef "+td.Name+": "+st)
		}
		e := v.Elem()
		if e.Kind() != reflect.Struct {
			return
		}
		for i := 0; i < e.NumField(); i++ {
			tag := e.Type().Field(i).Tag.Get("yang")
			if tag == "" || (tag[0] >= 'A' && tag[0] <= 'Z') {
				continue // Name, Statement, Parent, Extensions: not substatement fields
			}
			f := e.Field(i)
			switch {
			case f.Kind() == reflect.Ptr && f.Type().Implements(nodeT) && !f.IsNil():
				walk(f.Interface().(yang.Node), d+1)
			case f.Kind() == reflect.Slice && f.Type().Elem().Implements(nodeT):
				for k := 0; k < f.Len(); k++ {
					walk(f.Index(k).Interface().(yang.Node), d+1)
				}
			}
		}
	}
	var keys []string
	for k := range ms.Modules {
		keys = append(keys, "M"+k)
	}
	for k := range ms.SubModules {
		keys = append(keys, "S"+k)
	}
	sort.Strings(keys)
	for _, k := range keys {
		if k[0] == 'M' {
			walk(ms.Modules[k[1:]], 0)
		} else {
			walk(ms.SubModules[k[1:]], 0)
		}
	}
	sort.Strings(out)
	return out
}

// firstDiff returns the first differing line pair.
func firstDiff(a, b string) (string, string) {
	la, lb := strings.Split(a, "\n"), strings.Split(b, "\n")
	for i := 0; i < len(la) && i < len(lb); i++ {
		if la[i] != lb[i] {
			return la[i], lb[i]
		}
	}
	if len(la) > len(lb) {
		return la[len(lb)], "(end)"
	}
	if len(lb) > len(la) {
		return "(end)", lb[len(la)]
	}
	return "", ""
}

func clip(s string, n int) string {
	if len(s) > n {
		return s[:n] + "…"
	}
	return s
}

// Run generates histories.
func Run(j *job.Job, s *job.Sink) {
	for c := j.Start; c < j.Start+j.Count; c++ {
		r := prng.For(j.Seed, "C18", j.Family, c)
		g := &schema.Gen{R: r, Typedefs: true}
		g.Build()
		var ops []op
		order := r.Perm(len(g.Mods))
		semantic := false
		for _, i := range order {
			m := g.Mods[i]
			t := schema.Print(m)
			// some good texts carry a semantic error (18 kinds, detected in different places
			// of the resolver), so that errors too must be stable
			if r.Intn(6) == 0 {
				if ft, kind := faults.Inject(r, t); kind != "" {
					t = ft
					semantic = true
					s.Count("semantic_fault:"+kind, 1)
				}
			}
			if r.Intn(3) == 0 {
				var bt string
				switch r.Intn(10) {
				case 0, 1, 2:
					bt = strings.Replace(t, "{", "{ bogus-statement x;", 1)
				case 3, 4, 5:
					bt = t[:len(t)-3] // unbalanced braces
				case 6, 7, 8:
					k := strings.LastIndex(t, "}")
					bt = t[:k] + "  frobnicate y;\n}\n" // rejected after everything nested was built
				default:
					k := strings.LastIndex(t, "}")
					bt = t[:k] + "  container zz { typedef loop { type loop; } typedef dangling { type nosuch:thing; } }\n  frobnicate y;\n}\n"
				}
				ops = append(ops, op{"bad", m.Name + ".bad.yang", bt})
			}
			ops = append(ops, op{"load", m.Name + ".yang", t})
			if r.Intn(8) == 0 {
				// the same source name is offered once more with another text for the same
				// module (a file edited and read again): whatever the text, it is a second
				// module of that name and revision and must be refused, not taken for the
				// one already there
				k := strings.LastIndex(t, "}")
				again := []string{
					t[:k] + "  leaf zzedited { type string; }\n}\n",
					t[:k] + "  frobnicate y;\n}\n",
					strings.Replace(t, "{", "{ bogus-statement x;", 1),
					t,
				}[r.Intn(4)]
				ops = append(ops, op{"bad", m.Name + ".yang", again})
			}
			if r.Intn(5) == 0 {
				// a read between a load and the next processing run (the caller converts
				// what is there so far): whatever it returns, it must not change what
				// the next run reports
				ops = append(ops, op{Kind: "earlyread"})
			}
			if r.Intn(3) == 0 {
				ops = append(ops, op{Kind: "process"})
				if r.Intn(2) == 0 {
					ops = append(ops, op{Kind: "read"})
				}
			}
			if r.Intn(6) == 0 {
				ops = append(ops, op{Kind: "process"})
			}
			if r.Intn(8) == 0 {
				ops = append(ops, op{Kind: "process"}, op{Kind: "reread"}, op{Kind: "process"})
			}
		}
		// One history in three also carries an identity hierarchy spread over two to four
		// small modules that arrive at different times (a chain TOP <- MID <- LOW in the
		// first, later modules deriving from any level, equal names across modules, an
		// identityref leaf on the top), so that derived-identity lists are recomputed
		// across processing runs.
		if r.Intn(3) == 0 {
			n := 2 + r.Intn(3)
			withSub := r.Intn(2) == 0
			var idops []op
			var lateSub *op
			if withSub {
				sub := "submodule zzid0s {\n  belongs-to zzid0 { prefix i0; }\n  identity SUBMID { base MID; }\n  identity SUBLOW { base SUBMID; }\n  identity SUBTOP { base i0:TOP; }\n  leaf subref { type identityref { base MID; } }\n}\n"
				if r.Intn(3) == 0 {
					// the submodule comes in two revisions, the newer one late: it no longer has
					// one of the identities (and has a new one), and the older revision, which
					// nothing includes any more, must not contribute to any list from then on
					old := strings.Replace(sub, "  identity SUBMID", "  revision 2019-01-01;\n  identity SUBOLD { base MID; }\n  identity SUBOLDER { base SUBOLD; }\n  identity SUBMID", 1)
					newer := strings.Replace(sub, "  identity SUBMID", "  revision 2020-01-01;\n  identity SUBNEW { base MID; }\n  identity SUBMID", 1)
					// (each revision also augments the module's container and deviates its leaf:
					// only the included revision's augment and deviation count in a run)
					old = strings.Replace(old, "  leaf subref", "  augment \"/i0:idbox\" { leaf fromold { type string; } }\n  deviation \"/i0:idref\" { deviate add { units \"u-old\"; } }\n  leaf subref", 1)
					newer = strings.Replace(newer, "  leaf subref", "  augment \"/i0:idbox\" { leaf fromnew { type string; } }\n  deviation \"/i0:idref\" { deviate add { units \"u-new\"; } }\n  leaf subref", 1)
					sub = old
					lateSub = &op{"load", "zzid0s@2020-01-01.yang", newer}
					s.Count("histories_with_a_late_submodule_revision", 1)
				}
				idops = append(idops, op{"load", "zzid0s.yang", sub})
			}
			for k := 0; k < n; k++ {
				var b strings.Builder
				fmt.Fprintf(&b, "module zzid%d {\n  namespace \"urn:zzid%d\";\n  prefix i%d;\n", k, k, k)
				for q := 0; q < k; q++ {
					fmt.Fprintf(&b, "  import zzid%d { prefix x%d; }\n", q, q)
				}
				if k == 0 {
					// half of the time part of the hierarchy lives in a submodule, which is a
					// file of its own and may arrive after its module has been processed
					if withSub {
						b.WriteString("  include zzid0s;\n")
					}
					b.WriteString("  identity TOP;\n  identity MID { base TOP; }\n  identity LOW { base MID; }\n  leaf idref { type identityref { base TOP; } }\n  container idbox { }\n")
				} else {
					for q := 1 + r.Intn(2); q > 0; q-- {
						src := r.Intn(k)
						base := []string{"TOP", "MID", "LOW"}[r.Intn(3)]
						name := []string{"EXTRA", "LOW", fmt.Sprintf("E%d", k)}[r.Intn(3)]
						if src != 0 {
							base = "LOW"
						}
						fmt.Fprintf(&b, "  identity %s%d { base x%d:%s; }\n", name, q, 0, base)
					}
					fmt.Fprintf(&b, "  identity LOW { base x0:%s; }\n", []string{"TOP", "MID", "LOW"}[r.Intn(3)])
				}
				b.WriteString("}\n")
				idops = append(idops, op{"load", fmt.Sprintf("zzid%d.yang", k), b.String()})
			}
			for _, io := range idops {
				at := r.Intn(len(ops) + 1)
				ops = append(ops[:at], append([]op{io}, ops[at:]...)...)
				if r.Intn(2) == 0 {
					ops = append(ops, op{Kind: "process"})
				}
			}
			if lateSub != nil {
				ops = append(ops, op{Kind: "process"}, *lateSub, op{Kind: "process"})
			}
			s.Count("histories_with_identity_modules", 1)
		}
		// One history in five gets a "namespace twin": a small module, with or without a
		// revision, that claims the namespace of a module already in the history and arrives
		// late (after reads may have cached the namespace lookup).
		if r.Intn(5) == 0 {
			var cands []*schema.Mod
			for _, m := range g.Mods {
				if !m.Sub {
					cands = append(cands, m)
				}
			}
			m := cands[r.Intn(len(cands))]
			rev := ""
			if r.Intn(2) == 0 {
				rev = "  revision 2021-03-03;\n"
			}
			tw := fmt.Sprintf("module zztwin {\n  namespace %q;\n  prefix zt;\n%s  leaf zztw { type string; }\n}\n", m.NS, rev)
			ops = append(ops, op{Kind: "process"}, op{Kind: "read"}, op{"load", "zztwin.yang", tw}, op{Kind: "process"}, op{Kind: "read"})
			s.Count("histories_with_a_namespace_twin", 1)
		}
		// One history in four has a module in two revisions: the older one takes the place
		// of the original text, the newer one (with one more top-level leaf and one more
		// leaf in each of its top-level groupings, which the modules importing it expand)
		// arrives later, usually after a Process has already linked everything to the old one.
		if r.Intn(4) == 0 {
			var cands []*schema.Mod
			for _, m := range g.Mods {
				// Only modules without submodules: with two revisions of a module that
				// includes a submodule loaded together the outcome is not even repeatable
				// (recorded finding c05-two-revisions-share-a-submodule), so no history
				// could be blamed for a difference.
				if !m.Sub && len(m.Includes) == 0 {
					cands = append(cands, m)
				}
			}
			if len(cands) == 0 {
				cands = nil
			}
			m := &schema.Mod{Body: &schema.Scope{}}
			if len(cands) > 0 {
				m = cands[r.Intn(len(cands))]
			}
			v0 := schema.Print(m)
			m.Revs = []string{"2019-01-01"}
			v1 := schema.Print(m)
			m.Revs = []string{"2020-02-02"}
			extra := func(sc *schema.Scope, name string) {
				sc.Items = append(sc.Items, &schema.Item{Node: &schema.Node{Kind: "leaf", Name: name, Type: &schema.TypeRef{Name: "string", Scope: sc}}})
			}
			extra(m.Body, "zzrev2")
			for _, gr := range m.Body.Groupings {
				extra(gr.Body, "zzrev2g")
			}
			v2 := schema.Print(m)
			// the two revisions also differ in what a typedef means, and each has its own
			// identity of one name; a third module refers to both through an import without
			// revision-date, so what it sees must move to the newer revision when that arrives
			addTail := func(t, extra string) string {
				k := strings.LastIndex(t, "}")
				return t[:k] + extra + t[k:]
			}
			v1 = addTail(v1, "  identity zzidrev;\n  typedef zzrt { type string; units \"old\"; }\n")
			if r.Intn(4) == 0 {
				// the newer revision no longer has the typedef: what resolved against the
				// older one must fail now, and leave nothing of the earlier result behind
				v2 = addTail(v2, "  identity zzidrev;\n  identity zzidnew { base zzidrev; }\n")
			} else {
				v2 = addTail(v2, "  identity zzidrev;\n  identity zzidnew { base zzidrev; }\n  typedef zzrt { type int8; units \"new\"; }\n")
			}
			revUser := fmt.Sprintf("module zzrevuser {\n  namespace \"urn:zzrevuser\";\n  prefix zru;\n  import %s { prefix zp; }\n  identity zzy { base zp:zzidrev; }\n  typedef zzlocal { type zp:zzrt; }\n  leaf zzl { type identityref { base zp:zzidrev; } }\n  leaf zzt { type zp:zzrt; }\n  leaf zzt2 { type zzlocal; }\n  leaf zzu { type union { type zp:zzrt; type boolean; } }\n  typedef zzun { type union { type zp:zzrt; type union { type zzlocal; type identityref { base zp:zzidrev; } } } }\n  leaf zzu2 { type zzun; }\n  typedef zzir { type identityref { base zp:zzidrev; } }\n  leaf zzl2 { type zzir; }\n  leaf-list zzll { type identityref { base zp:zzidrev; } }\n  typedef zzlr { type leafref { path \"/zru:zzt\"; } }\n  leaf zzl3 { type zzlr; }\n}\n", m.Name)
			replaced := false
			for k := range ops {
				// only when the loaded text is the pristine one (no injected fault)
				if ops[k].Kind == "load" && ops[k].Name == m.Name+".yang" && ops[k].Text == v0 {
					ops[k].Text = v1
					replaced = true
				}
			}
			if replaced {
				late := op{"load", m.Name + "@2020-02-02.yang", v2}
				at := len(ops)
				if r.Intn(3) == 0 {
					at = r.Intn(len(ops) + 1)
				}
				ops = append(ops[:at], append([]op{late}, ops[at:]...)...)
				if m.Name != "" && r.Intn(4) > 0 {
					ua := r.Intn(at + 1) // usually before the newer revision, so that a run binds it to the older one first
					ops = append(ops[:ua], append([]op{{"load", "zzrevuser.yang", revUser}, {Kind: "process"}}, ops[ua:]...)...)
				}
				if r.Intn(2) == 0 {
					ops = append(ops, op{Kind: "process"})
				}
				if m.Name != "" && r.Intn(3) == 0 {
					// a text of two modules, a still newer revision of this module first and a
					// module that is rejected behind it: the load fails, and a query right
					// after it finds what the last run left
					ops = append(ops, op{Kind: "process"}, op{Kind: "multi", Name: "zzmultirev.yang", Text: strings.Replace(v1, "revision 2019-01-01;", "revision 2022-12-12;", 1) + "module zzbadtail {\n  namespace \"urn:zzbadtail\";\n  prefix zbt;\n  frobnicate y;\n}\n"}, op{Kind: "read"})
					s.Count("histories_with_a_rejected_text_that_starts_with_a_newer_revision", 1)
				}
				s.Count("histories_with_a_late_newer_revision", 1)
			}
		}
		// One history in five offers a text that holds several top-level statements. When a
		// later statement is rejected the whole text is a failed load, and nothing of it may
		// stay: not the modules that came before the rejected statement, not their typedefs.
		// The first module defines typedefs at the top and in a container, the optional
		// second one derives from them across an import.
		if r.Intn(5) == 0 {
			ma := "module zzma {\n  namespace \"urn:zzma\";\n  prefix za;\n  typedef t1 { type int8 { range \"1..5\"; } }\n  container c {\n    typedef t2 { type t1; }\n    leaf l { type t2; }\n  }\n  grouping g { typedef t4 { type string { length \"2\"; } } leaf gl { type t4; } }\n  uses g;\n  leaf top { type t1; }\n}\n"
			mb := "module zzmb {\n  namespace \"urn:zzmb\";\n  prefix zb;\n  import zzma { prefix za; }\n  typedef t3 { type za:t1; }\n  leaf x { type za:t1; }\n  leaf y { type t3; }\n  uses za:g;\n}\n"
			var tail string
			switch r.Intn(5) {
			case 0:
				tail = "module zzmc {\n  namespace \"urn:zzmc\";\n  prefix zc;\n  typedef t9 { type string; }\n  frobnicate y;\n}\n"
			case 1:
				tail = "container notamodule {\n  leaf q { type string; }\n}\n"
			case 2:
				tail = "module zzma {\n  namespace \"urn:zzma2\";\n  prefix za2;\n  typedef t1 { type string; }\n}\n"
			case 3:
				tail = "module zzmc {\n  namespace \"urn:zzmc\";\n  prefix zc;\n  container k { typedef t8 { type int8; } leaf z { type t8; } bogus-statement 1; }\n}\n"
			default:
				tail = "" // the whole text is acceptable
			}
			parts := []string{ma}
			if r.Intn(2) == 0 {
				parts = append(parts, mb)
			}
			if tail != "" && r.Intn(6) == 0 {
				// the rejected statement comes first: nothing of the text may stay
				parts = append([]string{tail}, parts...)
				if strings.HasPrefix(tail, "module zzma") {
					parts = parts[:1] // (a duplicate needs the original before it; keep it simple)
					parts[0] = "module zzmc { namespace \"urn:zzmc\"; prefix zc; frobnicate y; }\n"
				}
			} else if tail != "" {
				parts = append(parts, tail)
			}
			mo := op{Kind: "multi", Name: "zzmulti.yang", Text: strings.Join(parts, "")}
			if tail == "" {
				mo.Kind = "load"
			}
			at := r.Intn(len(ops) + 1)
			ops = append(ops[:at], append([]op{mo}, ops[at:]...)...)
			if r.Intn(2) == 0 {
				ops = append(ops, op{Kind: "process"})
			}
			s.Count("histories_with_a_multi_module_text", 1)
		}
		ops = append(ops, op{Kind: "process"}, op{Kind: "read"}, op{Kind: "process"})
		// One history in eight ends with a file that is read from a directory and rejected.
		// The directory also holds a module that a later text imports without anybody
		// loading it: a set that was never offered the bad file does not know the directory
		// and reports the import as missing, and so must this one.
		if r.Intn(8) == 0 {
			ops = append(ops, op{"badread", "zzbadf.yang", "module zzbadf {\n  namespace \"urn:zzbadf\";\n  prefix zf;\n  leaf x { type string; }\n" + []string{"", "  frobnicate y;\n}\n", "  leaf x { type string; }\n  typedef t { type nosuch; }\n  leaf-list { }\n}\n"}[r.Intn(3)]},
				op{"load", "zzuser.yang", "module zzuser {\n  namespace \"urn:zzuser\";\n  prefix zu;\n  import zzdep { prefix d; }\n  leaf l { type d:t; }\n}\n"},
				op{Kind: "process"})
			if r.Intn(2) == 0 {
				// a good file of the same directory is read next: from then on the directory is
				// on the search path, and its other files can be fetched
				ops = append(ops, op{"readnear", "zznear.yang", "module zznear {\n  namespace \"urn:zznear\";\n  prefix zr;\n  import zzdep { prefix d; }\n  leaf n { type d:t; }\n}\n"}, op{Kind: "process"})
				s.Count("histories_with_a_good_read_next_to_a_rejected_one", 1)
			}
			if r.Intn(2) == 0 {
				// then the rejected file is repaired and read again, under the same name
				ops = append(ops, op{"repair", "zzbadf.yang", "module zzbadf {\n  namespace \"urn:zzbadf\";\n  prefix zf;\n  leaf x { type string; }\n  leaf repaired { type string; }\n}\n"}, op{Kind: "process"}, op{Kind: "read"})
				s.Count("histories_with_a_repaired_file", 1)
			}
			s.Count("histories_with_a_rejected_file_read", 1)
		}
		// One history in eight has a module whose import is nowhere to be found at first (a run
		// reports it as missing, a read may look for it as well); later a good file is read from
		// a directory that also holds the missing module, which puts the directory on the search
		// path. From then on the import resolves, as it does in a set that was never asked before.
		// One history in ten reads a module whose imports lie next to it and are fetched by the
		// processing run itself, one of them with an augment of another; the run is repeated.
		if r.Intn(10) == 0 {
			ops = append(ops, op{"goodreadaug", "zzmain.yang", "module zzmain {\n  namespace \"urn:zzmain\";\n  prefix zm;\n  import zzext { prefix ze; }\n  leaf l { type ze:percent; }\n}\n"}, op{Kind: "process"}, op{Kind: "process"}, op{Kind: "read"})
			s.Count("histories_with_fetched_modules_that_augment", 1)
		}
		// One history in twelve reads a module whose import is fetched from a file that holds
		// two modules; the second one has an import of its own, which lies next to it. The run
		// that fetches the file links both, so a second run changes nothing.
		if r.Intn(12) == 0 {
			// (the file also brings a newer revision of a module that a user, linked before
			// the fetch, imports: the run that fetches it binds the user to it)
			ops = append(ops, op{"load", "zztwobase.yang", "module zztwobase {\n  namespace \"urn:zztwobase\";\n  prefix zb;\n  revision 2019-01-01;\n  typedef t { type int8; }\n}\n"},
				op{"load", "zzt0user.yang", "module zzt0user {\n  namespace \"urn:zzt0user\";\n  prefix zu;\n  import zztwobase { prefix zb; }\n  leaf l { type zb:t; }\n}\n"})
			ops = append(ops, op{"goodreadtwo", "zztwomain.yang", "module zztwomain {\n  namespace \"urn:zztwomain\";\n  prefix zt;\n  import zzpair { prefix zp; }\n  leaf l { type zp:t; }\n}\n"}, op{Kind: "process"}, op{Kind: "process"}, op{Kind: "read"})
			s.Count("histories_with_a_fetched_file_that_holds_two_modules", 1)
		}
		// One history in twelve reads a module whose first import is nowhere to be found and whose
		// second import lies next to it and defines the base of one of its identities: whatever
		// the run makes of the missing import, the module it does fetch is fetched in time for
		// its identities to count, so a second run changes nothing.
		if r.Intn(12) == 0 {
			ops = append(ops, op{"goodreadmiss", "zzfm.yang", "module zzfm {\n  namespace \"urn:zzfm\";\n  prefix zf;\n  import zznowhere { prefix zn; }\n  import zzidb { prefix zb; }\n  identity x { base zb:y; }\n}\n"}, op{Kind: "process"}, op{Kind: "process"}, op{Kind: "read"})
			s.Count("histories_with_a_fetched_module_behind_a_missing_import", 1)
		}
		if r.Intn(8) == 0 {
			needs := op{"load", "zzneeds.yang", "module zzneeds {\n  namespace \"urn:zzneeds\";\n  prefix zn;\n  import zzlate { prefix zl; }\n  leaf l { type zl:t; }\n  identity mine { base zl:zlid; }\n}\n"}
			other := op{"goodread", "zzother.yang", "module zzother {\n  namespace \"urn:zzother\";\n  prefix zo;\n  leaf o { type string; }\n}\n"}
			tail := []op{needs}
			if r.Intn(2) == 0 {
				tail = append(tail, op{Kind: "earlyread"})
			}
			tail = append(tail, op{Kind: "process"}, other, op{Kind: "process"}, op{Kind: "read"})
			ops = append(ops, tail...)
			s.Count("histories_with_a_search_path_that_grows", 1)
		}
		// One history in 300 is the witness of a recorded finding and nothing else (recorded
		// finding c18-revision-date-import-binds-by-what-is-loaded): a module that imports
		// a@2019-01-01 by revision-date is read from a directory that holds that revision; a
		// processing run fetches it; then a@2020-01-01 is loaded and the set processed again.
		// The import stays with the revision it names. A fresh set given the same loads never
		// fetches a@2019-01-01, because by then another revision of a is loaded, and binds the
		// import to that one.
		historyKind := ""
		if c%300 == 11 {
			historyKind = "revision-date-import-fetched-before-a-newer-revision-arrives"
			ops = []op{
				{"goodreadrev", "zzn.yang", "module zzn {\n  namespace \"urn:zzn\";\n  prefix zn;\n  import zza { prefix a; revision-date 2019-01-01; }\n  leaf l { type a:t; }\n}\n"},
				{Kind: "process"},
				{"load", "zza@2020-01-01.yang", "module zza {\n  namespace \"urn:zza\";\n  prefix a;\n  revision 2020-01-01;\n  typedef t { type int8 { range \"0..20\"; } }\n}\n"},
				{Kind: "process"},
			}
			s.Count("witness_histories", 1)
		}
		s.Current(c, ops)
		s.Count("histories", 1)
		nproc, nbad := 0, 0
		for _, o := range ops {
			switch o.Kind {
			case "process":
				nproc++
			case "bad", "multi", "badread":
				nbad++
			}
		}
		if nproc >= 3 || nbad > 0 {
			s.Count("nontrivial", 1)
		}
		reported := false
		bad := func(class, detail string, facts map[string]any) {
			if reported {
				return
			}
			reported = true
			if facts == nil {
				facts = map[string]any{}
			}
			facts["semantic_error_text_in_history"] = semantic
			facts["history_kind"] = historyKind
			s.Violation(c, j.CaseID(c), "C18.history", class, detail, ops, facts)
		}
		func() {
			defer func() {
				if rec := recover(); rec != nil {
					bad("panic", fmt.Sprint(rec), nil)
				}
			}()
			ms := yang.NewModules()
			var good []op
			failedLoads := 0
			lastBadPath := ""
			lastLive := ""
			processedBefore := false
			lastClean := false
			everProcessed, lastProcClean := false, false
			for step, o := range ops {
				switch o.Kind {
				case "bad":
					if err := ms.Parse(o.Text, o.Name); err == nil {
						bad("generator", "bad text accepted: "+o.Name, nil)
						return
					}
					failedLoads++
				case "badread":
					dir, err := os.MkdirTemp(".", "badread")
					if err != nil {
						continue
					}
					os.WriteFile(filepath.Join(dir, o.Name), []byte(o.Text), 0o644)
					os.WriteFile(filepath.Join(dir, "zzdep.yang"), []byte("module zzdep {\n  namespace \"urn:zzdep\";\n  prefix zd;\n  typedef t { type int8; }\n}\n"), 0o644)
					err = ms.Read(filepath.Join(dir, o.Name))
					lastBadPath = filepath.Join(dir, o.Name)
					// (the directory stays until the history is over: what matters is whether
					// the set still looks into it)
					defer os.RemoveAll(dir)
					if err == nil {
						bad("generator", "bad file accepted: "+o.Name, nil)
						return
					}
					failedLoads++
				case "goodreadrev":
					dir, err := os.MkdirTemp(".", "goodreadrev")
					if err != nil {
						continue
					}
					os.WriteFile(filepath.Join(dir, o.Name), []byte(o.Text), 0o644)
					os.WriteFile(filepath.Join(dir, "zza@2019-01-01.yang"), []byte("module zza {\n  namespace \"urn:zza\";\n  prefix a;\n  revision 2019-01-01;\n  typedef t { type int8 { range \"0..19\"; } }\n}\n"), 0o644)
					defer os.RemoveAll(dir)
					if err := ms.Read(filepath.Join(dir, o.Name)); err != nil {
						bad("good-text-rejected", err.Error(), nil)
						return
					}
					good = append(good, op{Kind: "goodread", Name: filepath.Join(dir, o.Name)})
					lastClean, lastLive = false, ""
				case "goodreadaug":
					// a module read from a directory that also holds what it imports: Process
					// fetches those, and one of them augments another
					dir, err := os.MkdirTemp(".", "goodreadaug")
					if err != nil {
						continue
					}
					os.WriteFile(filepath.Join(dir, o.Name), []byte(o.Text), 0o644)
					os.WriteFile(filepath.Join(dir, "zzext.yang"), []byte("module zzext {\n  namespace \"urn:zzext\";\n  prefix ze;\n  import zzbase { prefix zb; }\n  typedef percent { type uint8 { range \"0..100\"; } }\n  augment \"/zb:c\" {\n    leaf load { type percent; }\n    choice how { leaf quick { type empty; } }\n  }\n}\n"), 0o644)
					os.WriteFile(filepath.Join(dir, "zzbase.yang"), []byte("module zzbase {\n  namespace \"urn:zzbase\";\n  prefix zb;\n  container c { leaf own { type string; } }\n}\n"), 0o644)
					defer os.RemoveAll(dir)
					if err := ms.Read(filepath.Join(dir, o.Name)); err != nil {
						bad("good-text-rejected", err.Error(), nil)
						return
					}
					good = append(good, op{Kind: "goodread", Name: filepath.Join(dir, o.Name)})
					lastClean, lastLive = false, ""
				case "goodreadmiss":
					dir, err := os.MkdirTemp(".", "goodreadmiss")
					if err != nil {
						continue
					}
					os.WriteFile(filepath.Join(dir, o.Name), []byte(o.Text), 0o644)
					os.WriteFile(filepath.Join(dir, "zzidb.yang"), []byte("module zzidb {\n  namespace \"urn:zzidb\";\n  prefix zb;\n  identity y;\n  identity y1 { base y; }\n}\n"), 0o644)
					defer os.RemoveAll(dir)
					if err := ms.Read(filepath.Join(dir, o.Name)); err != nil {
						bad("good-text-rejected", err.Error(), nil)
						return
					}
					good = append(good, op{Kind: "goodread", Name: filepath.Join(dir, o.Name)})
					lastClean, lastLive = false, ""
				case "goodreadtwo":
					dir, err := os.MkdirTemp(".", "goodreadtwo")
					if err != nil {
						continue
					}
					os.WriteFile(filepath.Join(dir, o.Name), []byte(o.Text), 0o644)
					os.WriteFile(filepath.Join(dir, "zzpair.yang"), []byte("module zzpair {\n  namespace \"urn:zzpair\";\n  prefix zp;\n  typedef t { type int8; }\n}\nmodule zzpairb {\n  namespace \"urn:zzpairb\";\n  prefix zpb;\n  import zzw { prefix w; }\n  leaf x { type w:wt; }\n}\nmodule zztwobase {\n  namespace \"urn:zztwobase\";\n  prefix zb;\n  revision 2020-01-01;\n  typedef t { type int16; }\n}\n"), 0o644)
					os.WriteFile(filepath.Join(dir, "zzw.yang"), []byte("module zzw {\n  namespace \"urn:zzw\";\n  prefix zw;\n  typedef wt { type uint32; }\n}\n"), 0o644)
					defer os.RemoveAll(dir)
					if err := ms.Read(filepath.Join(dir, o.Name)); err != nil {
						bad("good-text-rejected", err.Error(), nil)
						return
					}
					good = append(good, op{Kind: "goodread", Name: filepath.Join(dir, o.Name)})
					lastClean, lastLive = false, ""
				case "readnear":
					// a good file from the directory of the file that was rejected a moment ago;
					// what it imports lies next to it
					if lastBadPath == "" {
						continue
					}
					near := filepath.Join(filepath.Dir(lastBadPath), o.Name)
					os.WriteFile(near, []byte(o.Text), 0o644)
					if err := ms.Read(near); err != nil {
						bad("good-text-rejected", err.Error(), nil)
						return
					}
					good = append(good, op{Kind: "goodread", Name: near})
					lastClean, lastLive = false, ""
				case "repair":
					// the file that was rejected a moment ago has been repaired on disk and is
					// offered again under the same name
					if lastBadPath == "" {
						continue
					}
					os.WriteFile(lastBadPath, []byte(o.Text), 0o644)
					if err := ms.Read(lastBadPath); err != nil {
						bad("good-text-rejected", "the repaired file: "+err.Error(), nil)
						return
					}
					good = append(good, op{Kind: "goodread", Name: lastBadPath})
					lastBadPath = ""
					lastClean, lastLive = false, ""
				case "goodread":
					dir, err := os.MkdirTemp(".", "goodread")
					if err != nil {
						continue
					}
					os.WriteFile(filepath.Join(dir, o.Name), []byte(o.Text), 0o644)
					os.WriteFile(filepath.Join(dir, "zzlate.yang"), []byte("module zzlate {\n  namespace \"urn:zzlate\";\n  prefix zl;\n  typedef t { type int16; }\n  identity zlid;\n}\n"), 0o644)
					defer os.RemoveAll(dir)
					if err := ms.Read(filepath.Join(dir, o.Name)); err != nil {
						bad("good-text-rejected", err.Error(), nil)
						return
					}
					good = append(good, op{Kind: "goodread", Name: filepath.Join(dir, o.Name)})
					lastClean, lastLive = false, ""
				case "multi":
					if err := ms.Parse(o.Text, o.Name); err == nil {
						bad("generator", "bad text accepted: "+o.Name, nil)
						return
					}
					failedLoads++
					// A failed load leaves no trace: none of the statements of the text, also not
					// the acceptable ones that stand before the rejected one, may be in the set
					// (until fix 2efc706 the earlier ones stayed, which goyang documented).
					var kept []string
					names := []string{"zzma", "zzmb", "zzmc"}
					if o.Name == "zzmultirev.yang" {
						names = []string{"zzbadtail"}
						for k := range ms.Modules {
							if strings.HasSuffix(k, "@2022-12-12") {
								names = append(names, k)
							}
						}
					}
					for _, n := range names {
						if ms.Modules[n] != nil {
							kept = append(kept, n)
						}
					}
					if len(kept) > 0 {
						bad("failed-load-left-a-trace", fmt.Sprintf("the load of %s failed, yet the set holds %v", o.Name, kept), nil)
						return
					}
				case "load":
					if err := ms.Parse(o.Text, o.Name); err != nil {
						bad("good-text-rejected", err.Error(), nil)
						return
					}
					good = append(good, o)
					lastClean, lastLive = false, ""
				case "read":
					// Trees only "come back" from a clean Process; reads after a failed one
					// are outside the claim (DESIGN.md C01, blind spots).
					if lastClean {
						// nothing was loaded since the last clean run (failed loads at most): the
						// first query finds the trees as that run left them
						if lastLive != "" {
							s.Count("queries_compared_with_the_last_run", 1)
							if now := dump.Set(ms, nil, true); now != lastLive {
								a, b := firstDiff(lastLive, now)
								bad("query-after-failed-load-differs", fmt.Sprintf("the trees a query finds are not those of the last processing run although no load succeeded since: %q became %q", clip(a, 200), clip(b, 200)), nil)
								return
							}
						}
						readWalk(ms)
						lastLive = "" // (the walk may have created inputs and outputs on demand)
					}
				case "earlyread":
					// not after a failed run either: only its errors "come back"
					if !everProcessed || lastProcClean {
						s.Count("reads_between_load_and_process", 1)
						readWalk(ms)
					}
				case "reread":
					// the caller drops the entry cache and converts everything again on its own
					// (both public API), which must not disturb the next Process either
					if lastClean {
						ms.ClearEntryCache()
						readWalk(ms)
						// the trees built after the cache was dropped are whole: what an
						// included submodule writes at its top is in the tree of the module
						// (only where one revision of the module is loaded, see the recorded
						// finding c13-two-revisions-share-a-submodule)
						for key, m := range ms.Modules {
							if key != m.FullName() || ms.Modules[m.Name] != m || (key != m.Name && len(ms.Modules) > 0 && ms.Modules[m.Name+"@"] != nil) {
								continue
							}
							revs := 0
							for _, o := range ms.Modules {
								if o.Name == m.Name && o != m {
									revs++
								}
							}
							if revs > 0 {
								continue
							}
							e := yang.ToEntry(m)
							var check func(sm *yang.Module, seen map[*yang.Module]bool)
							check = func(sm *yang.Module, seen map[*yang.Module]bool) {
								if sm == nil || seen[sm] {
									return
								}
								seen[sm] = true
								var names []string
								for _, x := range sm.Container {
									names = append(names, x.Name)
								}
								for _, x := range sm.Leaf {
									names = append(names, x.Name)
								}
								for _, x := range sm.List {
									names = append(names, x.Name)
								}
								for _, x := range sm.LeafList {
									names = append(names, x.Name)
								}
								for _, n := range names {
									s.Count("submodule_nodes_checked_after_cache_clear", 1)
									if e.Dir[n] == nil {
										bad("cache-clear-loses-submodule-nodes", fmt.Sprintf("after ClearEntryCache, ToEntry(%s) lacks %s, which submodule %s writes at its top", key, n, sm.Name), nil)
									}
								}
								for _, in := range sm.Include {
									check(in.Module, seen)
								}
							}
							seen := map[*yang.Module]bool{}
							for _, in := range m.Include {
								check(in.Module, seen)
							}
						}
					}
				case "process":
					s.Count("process_steps_compared", 1)
					perrs := ms.Process()
					lastClean = len(perrs) == 0
					everProcessed, lastProcClean = true, lastClean
					live := dump.Set(ms, perrs, true)
					lastLive = ""
					if lastClean {
						lastLive = live
					}
					fresh := yang.NewModules()
					for _, gd := range good {
						if gd.Kind == "goodread" {
							fresh.Read(gd.Name)
						} else {
							fresh.Parse(gd.Text, gd.Name)
						}
					}
					batch := dump.Set(fresh, fresh.Process(), true)
					// quiescent-point snapshots of the set's unexported tables (verif hook
					// accessors): typedef dictionary, identity dictionary, module tables
					snap := func(m *yang.Modules) string {
						var mk []string
						for k := range m.Modules {
							mk = append(mk, "M "+k)
						}
						for k := range m.SubModules {
							mk = append(mk, "S "+k)
						}
						sort.Strings(mk)
						return strings.Join(mk, "\n") + "\n-- typedefs\n" + strings.Join(m.VerifTypedefKeys(), "\n") + "\n-- identities\n" + strings.Join(m.VerifIdentityKeys(), "\n") + "\n-- typedef statements\n" + strings.Join(typedefStates(m), "\n")
					}
					s.Count("table_snapshots_compared", 1)
					if ls, bs := snap(ms), snap(fresh); ls != bs {
						l, b := firstDiff(ls, bs)
						bad("tables-differ-from-batch", fmt.Sprintf("after step %d: live set has %q, batch set %q", step, clip(l, 160), clip(b, 160)), map[string]any{"failed_loads_before": failedLoads})
						return
					}
					// after a run that reported errors the trees are not a result of it, but a
					// caller can still ask for them: what he gets (the names below each module
					// and whether augments were applied) is what a fresh set gives
					if len(perrs) > 0 && live == batch {
						sketch := func(m *yang.Modules) (out string) {
							defer func() {
								if recover() != nil {
									out = "PANIC"
								}
							}()
							var ks []string
							for k := range m.Modules {
								ks = append(ks, k)
							}
							sort.Strings(ks)
							var b strings.Builder
							for _, k := range ks {
								e := yang.ToEntry(m.Modules[k])
								var cs []string
								for cn, ce := range e.Dir {
									cs = append(cs, fmt.Sprintf("%s/%v/%d/type=%v/errors=%d", cn, ce.Kind, len(ce.Dir), ce.Type != nil, len(ce.Errors)))
								}
								sort.Strings(cs)
								fmt.Fprintf(&b, "AFTER-FAILED-RUN %s: %v augments-pending=%d\n", k, cs, len(e.Augments))
							}
							return b.String()
						}
						s.Count("tree_sketches_after_failed_runs_compared", 1)
						live, batch = sketch(ms), sketch(fresh)
					}
					if live != batch {
						l, b := firstDiff(live, batch)
						class := "differs-from-batch"
						switch {
						case strings.Contains(l, ".bad.yang") || strings.Contains(b, ".bad.yang"), strings.Contains(l+b, "zzdep"), strings.Contains(l+b, "zzuser"), strings.Contains(l+b, "zzbadf"):
							class = "failed-load-left-a-trace"
						case strings.HasPrefix(b, "ERROR") && !strings.HasPrefix(l, "ERROR"):
							class = "errors-forgotten"
						case strings.HasPrefix(l, "ERROR") && !strings.HasPrefix(b, "ERROR"):
							class = "stale-errors"
						case strings.Contains(l, "import ") || strings.Contains(b, "import "):
							class = "import-link-differs"
						}
						bad(class, fmt.Sprintf("after step %d: live %q, batch %q", step, clip(l, 160), clip(b, 160)), map[string]any{"failed_loads_before": failedLoads, "reprocess_without_load": processedBefore})
						return
					}
					processedBefore = true
					continue
				}
				processedBefore = false
			}
		}()
		if c%1500 == 0 && !reported {
			var names []string
			for _, o := range ops {
				names = append(names, o.Kind+":"+o.Name)
			}
			s.Sample(1, names)
		}
	}
}
