// Package w19 is the stress workload of C19. It is meant to run in a worker built
// with -race: the race detector is the monitor for data races, and this package is
// the monitor for "every caller obtains the result a sequential run would give".
package w19

import (
	"bytes"
	"fmt"
	"hash/fnv"
	"os"
	"path/filepath"
	"regexp"
	"runtime"
	"sort"
	"strings"
	"sync"
	"sync/atomic"
	"time"

	"github.com/openconfig/goyang/pkg/yang"
	"verif/internal/dump"
	"verif/internal/job"
	"verif/internal/prng"
	"verif/internal/schema"
)

const goroutines = 16

type set struct {
	Names []string `json:"names"`
	Texts []string `json:"texts"`
	// Disk: the texts are written to a directory of their own and loaded from there (Read, with
	// the directory on the search path), as a caller with files does
	Disk bool `json:"disk,omitempty"`
}

func gen(seed, idx int64) set {
	g := &schema.Gen{R: prng.For(seed, "C19", "corpus", idx), Typedefs: true, NoActInGroup: true, NoAbsentIO: true, Posix: idx%2 == 0}
	g.Build()
	var s set
	if g.Posix {
		s.Names = append(s.Names, "openconfig-extensions.yang")
		s.Texts = append(s.Texts, schema.OCXText)
	}
	for _, m := range g.Mods {
		s.Names = append(s.Names, m.Name+".yang")
		s.Texts = append(s.Texts, schema.Print(m))
	}
	// One set in five ends in a text with a syntax error: the load stops there, and the
	// error - with its position - is part of what a caller obtains, concurrently or not.
	if idx%5 == 3 {
		last := s.Texts[len(s.Texts)-1]
		r := g.R
		switch r.Intn(4) {
		case 0:
			last += strings.Repeat(" ", r.Intn(40)) + "}\n"
		case 1:
			last += "leaf \"never closed\n"
		case 2:
			k := strings.LastIndex(last, ";")
			last = last[:k] + " 'q' zz;" + last[k+1:]
		default:
			last += "/* never closed"
		}
		s.Texts[len(s.Texts)-1] = last
	}
	// One set in four is loaded from files and holds an import that names a revision which is
	// not there while another revision of that module is: the import denotes the loaded one,
	// and path lookups through its prefix are reads like any other.
	if idx%4 == 2 || (idx%16 == 0 && (idx/16)%2 == 1) { // (the shared set of a reader round has an index that is a multiple of 16)
		s.Disk = true
		s.Names = append(s.Names, "zzrevdep.yang", "zzrevuser.yang")
		s.Texts = append(s.Texts,
			"module zzrevdep {\n  namespace \"urn:zzrevdep\";\n  prefix zrd;\n  revision 2021-06-01;\n  typedef t { type int32; }\n  container top { leaf val { type string; } }\n}\n",
			"module zzrevuser {\n  namespace \"urn:zzrevuser\";\n  prefix zru;\n  import zzrevdep { prefix f; revision-date 2020-01-01; }\n  augment \"/f:top\" { leaf extra { type f:t; default 1; } container more { leaf deep { type string; } } }\n  leaf own { type f:t; }\n}\n")
	}
	// Every set has a small module with a leaf-list whose defaults repeat a value (a b b c and
	// the like; goyang keeps them as written): the default accessors return them as they stand,
	// to every reader. And one set in seven imports, by revision-date, a module that is nowhere
	// to be found, under a name of its own: the error names that module and no other set's.
	s.Names = append(s.Names, "zzdefs.yang")
	s.Texts = append(s.Texts, "module zzdefs {\n  namespace \"urn:zzdefs\";\n  prefix zd;\n  leaf-list ll { type string; default a; default a; default b; }\n  container c { leaf-list mm { type string; default x; default y; default y; default y; default z; default z; } }\n  leaf mn { type int8 { range \"min..10\"; } }\n  leaf mx { type uint64 { range \"5..max\"; } }\n  leaf ml { type string { length \"1..max\"; } }\n  leaf mb { type binary { length \"min..4 | 8..max\"; } }\n  leaf md { type decimal64 { fraction-digits 3; range \"min..0 | 1.5..max\"; } }\n  leaf mi { type int64 { range \"min..max\"; } }\n  typedef zzp { type string { pattern \"[a-z]+\"; } }\n  leaf p1 { type zzp { pattern \"[0-9a-z]*\"; pattern \"x1\"; } }\n  leaf p2 { type string { pattern \"[0-9a-z]*\"; pattern \"[a-z]+\"; } }\n  leaf p3 { type zzp; }\n  leaf-list p4 { type zzp { pattern \"x1\"; pattern \"y2\"; pattern \"[a-z]+\"; } }\n}\n")
	if idx%7 == 5 {
		s.Names = append(s.Names, fmt.Sprintf("zzmiss%d.yang", idx))
		s.Texts = append(s.Texts, fmt.Sprintf("module zzmiss%d {\n  namespace \"urn:zzmiss%d\";\n  prefix zx;\n  import absent%d { prefix ab; revision-date 2020-01-01; }\n  leaf l { type string; }\n}\n", idx, idx, idx))
	}
	// One set in five has a text that the syntax tree builder refuses: a mandatory substatement
	// is missing (namespace, prefix, belongs-to, the type of a leaf), a statement is unknown, or
	// a single-valued one stands twice. The error paths of the builder run concurrently with
	// the builds of the other goroutines, and the error text is part of the outcome.
	if idx%5 == 1 {
		r := g.R
		k := len(s.Texts) - 1 - r.Intn(len(g.Mods))
		t := s.Texts[k]
		dropLine := func(prefix string) {
			lines := strings.Split(t, "\n")
			for i, l := range lines {
				if strings.HasPrefix(l, prefix) {
					lines = append(lines[:i], lines[i+1:]...)
					break
				}
			}
			t = strings.Join(lines, "\n")
		}
		switch r.Intn(7) {
		case 0:
			dropLine("  prefix ")
			dropLine("  belongs-to ")
		case 1:
			dropLine("  namespace ")
			dropLine("  belongs-to ")
		case 2:
			dropLine("  namespace ")
			dropLine("  prefix ")
		case 3:
			if loc := regexp.MustCompile(`\n\s+type [a-z0-9:]+;`).FindStringIndex(t); loc != nil {
				t = t[:loc[0]] + t[loc[1]:]
			} else {
				dropLine("  prefix ")
			}
		case 4:
			if i := strings.Index(t, "{\n"); i >= 0 {
				t = t[:i+2] + "  frobnicate y;\n" + t[i+2:]
			}
		case 5:
			if i := strings.Index(t, "\n  prefix "); i >= 0 {
				t = t[:i] + "\n  prefix twice;" + t[i:]
			} else {
				dropLine("  belongs-to ")
			}
		default:
			if i := strings.Index(t, "  import "); i >= 0 {
				j := strings.Index(t[i:], "\n")
				t = t[:i] + "  import " + strings.Fields(t[i : i+j])[1] + ";" + t[i+j:] // an import without prefix
			} else {
				dropLine("  namespace ")
			}
		}
		s.Texts[k] = t
	}
	return s
}

func load(s set) (*yang.Modules, []error) {
	ms := yang.NewModules()
	if s.Disk {
		// (one directory per set, named after its content, so that every load of the set sees
		// the same file names in positions; files are put in place by rename, since several
		// goroutines may load the same set at once)
		h := fnv.New64a()
		for i := range s.Texts {
			h.Write([]byte(s.Names[i]))
			h.Write([]byte(s.Texts[i]))
		}
		dir := fmt.Sprintf("disk-%016x", h.Sum64())
		if err := os.MkdirAll(dir, 0o755); err != nil {
			return ms, []error{err}
		}
		for i := range s.Texts {
			dst := filepath.Join(dir, s.Names[i])
			if _, err := os.Stat(dst); err == nil {
				continue
			}
			if f, err := os.CreateTemp(dir, "tmp*"); err == nil {
				f.WriteString(s.Texts[i])
				f.Close()
				os.Rename(f.Name(), dst)
			}
		}
		ms.AddPath(dir)
		for i := range s.Texts {
			// (a module that an earlier one imports has been fetched already)
			if ms.Modules[strings.TrimSuffix(s.Names[i], ".yang")] != nil || ms.SubModules[strings.TrimSuffix(s.Names[i], ".yang")] != nil {
				continue
			}
			if err := ms.Read(filepath.Join(dir, s.Names[i])); err != nil {
				return ms, []error{err}
			}
		}
		return ms, ms.Process()
	}
	for i := range s.Texts {
		if err := ms.Parse(s.Texts[i], s.Names[i]); err != nil {
			return ms, []error{err}
		}
	}
	return ms, ms.Process()
}

func walk(e *yang.Entry, f func(*yang.Entry)) {
	if e == nil {
		return
	}
	f(e)
	ks := make([]string, 0, len(e.Dir))
	for k := range e.Dir {
		ks = append(ks, k)
	}
	sort.Strings(ks)
	for _, k := range ks {
		walk(e.Dir[k], f)
	}
	if e.RPC != nil {
		walk(e.RPC.Input, f)
		walk(e.RPC.Output, f)
	}
}

// readerView is everything a reader observes of one processed set, as text.
func readerView(ms *yang.Modules) string {
	var b bytes.Buffer
	b.WriteString(dump.Set(ms, nil, true))
	for _, name := range sortedKeys(ms.Modules) {
		m := ms.Modules[name]
		root := yang.ToEntry(m)
		walk(root, func(e *yang.Entry) {
			p := e.Path()
			fmt.Fprintf(&b, "%s errs=%d single=", p, len(e.GetErrors()))
			v, ok := e.SingleDefaultValue()
			fmt.Fprintf(&b, "%q/%v ", v, ok)
			if e.Parent != nil && e.Kind != yang.InputEntry && e.Kind != yang.OutputEntry {
				if got := e.Parent.Find(e.Name); got != e {
					b.WriteString("FIND-MISMATCH ")
				}
				if got := e.Find("../" + e.Name); got != e {
					b.WriteString("FIND-REL-MISMATCH ")
				}
			}
			if m2, err := ms.FindModuleByNamespace(e.Namespace().Name); err == nil {
				b.WriteString(m2.Name)
			}
			// the absolute path of the node, looked up from the node itself: for nodes below
			// an rpc or action this walks through the input/output step (existing ones only)
			if pfx := prefixFor(e, m); e.Parent != nil && pfx != "" {
				abs := "/" + pfx + ":" + strings.TrimPrefix(p, "/"+root.Name+"/")
				if got := e.Find(abs); got != e {
					b.WriteString("FIND-ABS-MISMATCH ")
				}
			}
			if e.RPC != nil {
				for _, io := range []struct {
					n string
					e *yang.Entry
				}{{"input", e.RPC.Input}, {"output", e.RPC.Output}} {
					if io.e == nil {
						continue // looking up an absent one would create it
					}
					if got := e.Find(io.n); got != io.e {
						b.WriteString("FIND-IO-MISMATCH ")
					}
					for _, k := range sortedDir(io.e) {
						if got := e.Find(io.n + "/" + k); got != io.e.Dir[k] {
							b.WriteString("FIND-IO-CHILD-MISMATCH ")
						}
					}
				}
			}
			e.Print(&b)
		})
	}
	return b.String()
}

// prefixFor returns the prefix under which the file that defines e knows module m ("" if
// it does not: a node grafted by a grouping or augment of a module that does not import
// m). Find resolves the first prefix of an absolute path in that file, and records an
// error on the tree when it cannot - a lookup with an unknown prefix is not the read-only
// lookup of an existing node the property talks about.
func prefixFor(e *yang.Entry, m *yang.Module) string {
	if e.Node == nil {
		return ""
	}
	root := yang.RootNode(e.Node)
	if root == nil {
		return ""
	}
	if root == m || (root.BelongsTo != nil && root.BelongsTo.Name == m.Name) {
		return root.GetPrefix()
	}
	for _, im := range root.Import {
		if im.Module == m && im.Prefix != nil {
			return im.Prefix.Name
		}
	}
	return ""
}

func sortedDir(e *yang.Entry) []string {
	ks := make([]string, 0, len(e.Dir))
	for k := range e.Dir {
		ks = append(ks, k)
	}
	sort.Strings(ks)
	return ks
}

func sortedKeys(m map[string]*yang.Module) []string {
	var ks []string
	for k := range m {
		ks = append(ks, k)
	}
	for i := 1; i < len(ks); i++ {
		for j := i; j > 0 && ks[j] < ks[j-1]; j-- {
			ks[j], ks[j-1] = ks[j-1], ks[j]
		}
	}
	return ks
}

// yielder perturbs schedules at the yield points compiled into goyang under the verif tag
// (before the library takes one of its locks). What it does at an arrival is a pure
// function of (seed, arrival number), so a seed names a perturbation pattern; the
// arrival sequence itself is recorded as part of the interleaving signature.
type yielder struct {
	seed   uint64
	n      uint64
	mu     sync.Mutex
	trace  []byte
	counts [4]int64
}

var pointIndex = map[string]byte{"ns.lookup": 0, "entrycache.get": 1, "entrycache.set": 2, "typedict.find": 3}

func (y *yielder) at(point string) {
	n := atomic.AddUint64(&y.n, 1)
	pi := pointIndex[point]
	atomic.AddInt64(&y.counts[pi], 1)
	if n < 1<<14 {
		y.mu.Lock()
		if len(y.trace) < 4096 {
			y.trace = append(y.trace, pi)
		}
		y.mu.Unlock()
	}
	x := (n + y.seed) * 0x9e3779b97f4a7c15
	x ^= x >> 29
	switch x % 16 {
	case 0, 1, 2:
		runtime.Gosched()
	case 3:
		time.Sleep(time.Duration(1+x>>8%40) * time.Microsecond)
	}
}

// Run: each case index is one round. Even rounds: 16 goroutines each run the whole
// pipeline on their own set. Odd rounds: one processed set is read by 16 goroutines at
// once (first-time namespace lookups included), from a barrier.
func Run(j *job.Job, s *job.Sink) {
	for c := j.Start; c < j.Start+j.Count; c++ {
		s.Current(c, map[string]any{"round": c, "kind": []string{"pipelines", "readers", "mixed"}[c%3]})
		s.Count("rounds", 1)
		var order []int32 // arrival order at the barrier release, as an interleaving signature
		var mu sync.Mutex
		var seqNo int32
		arrive := func(g int) {
			n := atomic.AddInt32(&seqNo, 1)
			mu.Lock()
			order = append(order, int32(g)<<8|n&0xff)
			mu.Unlock()
		}
		y := &yielder{seed: uint64(j.Seed)*1000003 + uint64(c)}
		yang.VerifSetYield(y.at)
		kind := c % 3 // 0 pipelines, 1 readers, 2 mixed
		if kind == 2 {
			// mixed round: eight goroutines run pipelines on their own sets while eight read
			// one shared processed set; interference through package-level state would show
			// on either side
			st := gen(j.Seed, c*goroutines)
			shared, errs := load(st)
			sets := make([]set, goroutines/2)
			want := make([]string, goroutines/2)
			for g := range sets {
				sets[g] = gen(j.Seed, c*goroutines+1+int64(g))
				ms, e2 := load(sets[g])
				want[g] = dump.Set(ms, e2, true)
			}
			if len(errs) > 0 {
				s.Count("reader_round_skipped_errors", 1)
				yang.VerifSetYield(nil)
				continue
			}
			start := make(chan struct{})
			var wg sync.WaitGroup
			var badP, badR int32
			views := make([]string, goroutines/2)
			for g := 0; g < goroutines/2; g++ {
				wg.Add(2)
				go func(g int) {
					defer wg.Done()
					<-start
					arrive(g)
					ms, e2 := load(sets[g])
					if dump.Set(ms, e2, true) != want[g] {
						atomic.AddInt32(&badP, 1)
					}
				}(g)
				go func(g int) {
					defer wg.Done()
					<-start
					arrive(goroutines/2 + g)
					views[g] = readerView(shared)
				}(g)
			}
			close(start)
			wg.Wait()
			ref := readerView(shared)
			for g := range views {
				if views[g] != ref {
					badR++
				}
			}
			s.Count("pipeline_runs", goroutines/2)
			s.Count("reader_views", goroutines/2)
			s.Count("mixed_rounds", 1)
			s.Count("nontrivial", 1)
			if badP > 0 && stableSequentially(sets, want, s) {
				s.Violation(c, j.CaseID(c), "C19.result", "pipeline-result-differs", fmt.Sprintf("%d pipeline runs next to concurrent readers differ from the sequential result", badP), sets[0], nil)
			}
			if badR > 0 {
				s.Violation(c, j.CaseID(c), "C19.result", "reader-result-differs", fmt.Sprintf("%d of %d readers next to concurrent pipelines saw something else than the sequential reader", badR, goroutines/2), st, nil)
			}
		} else if kind == 0 {
			sets := make([]set, goroutines)
			want := make([]string, goroutines)
			for g := range sets {
				sets[g] = gen(j.Seed, c*goroutines+int64(g))
				if c%9 == 0 {
					// every third pipeline round loads very deep texts everywhere at once (400
					// levels each): whatever bounds depth must count per load, not per process
					depth := 300 + int(c)%200
					sets[g].Names = append(sets[g].Names, fmt.Sprintf("zzdeep%d.yang", g))
					sets[g].Texts = append(sets[g].Texts, fmt.Sprintf("module zzdeep%d {\n  namespace \"urn:zzdeep%d\";\n  prefix zd;\n", g, g)+strings.Repeat("container c {\n", depth)+"leaf bottom { type string; }\n"+strings.Repeat("}\n", depth)+"}\n")
					s.Count("pipeline_sets_with_a_deep_text", 1)
				}
				ms, errs := load(sets[g])
				want[g] = dump.Set(ms, errs, true)
			}
			start := make(chan struct{})
			var wg sync.WaitGroup
			var bad int32
			for g := 0; g < goroutines; g++ {
				wg.Add(1)
				go func(g int) {
					defer wg.Done()
					<-start
					for k := 0; k < 3; k++ {
						arrive(g)
						ms, errs := load(sets[g])
						if dump.Set(ms, errs, true) != want[g] {
							atomic.AddInt32(&bad, 1)
						}
						runtime.Gosched()
					}
				}(g)
			}
			close(start)
			wg.Wait()
			s.Count("pipeline_runs", goroutines*3)
			s.Count("nontrivial", 1)
			if bad > 0 && stableSequentially(sets, want, s) {
				s.Violation(c, j.CaseID(c), "C19.result", "pipeline-result-differs", fmt.Sprintf("%d concurrent pipeline runs differ from the sequential result", bad), sets[0], nil)
			}
		} else {
			errorReaders(j, s, c, arrive)
			st := gen(j.Seed, c*goroutines)
			seqMs, errs := load(st)
			if len(errs) > 0 {
				s.Count("reader_round_skipped_errors", 1)
				continue
			}
			_ = seqMs
			ms, _ := load(st) // a fresh processed set whose lazy caches are still empty
			start := make(chan struct{})
			var wg sync.WaitGroup
			var bad int32
			views := make([]string, goroutines)
			for g := 0; g < goroutines; g++ {
				wg.Add(1)
				go func(g int) {
					defer wg.Done()
					<-start
					arrive(g)
					views[g] = readerView(ms)
				}(g)
			}
			close(start)
			wg.Wait()
			// The sequential reference is taken from the same set afterwards (reads are
			// supposed to be pure), so that the concurrent phase meets the lazy caches
			// empty, and from a second, untouched load.
			want := readerView(ms)
			for g := range views {
				if views[g] != want {
					bad++
				}
			}
			if other := readerView(seqMs); other != want {
				s.Count("second_load_differs", 1)
			}
			s.Count("reader_views", goroutines)
			s.Count("nontrivial", 1)
			if bad > 0 {
				s.Violation(c, j.CaseID(c), "C19.result", "reader-result-differs", fmt.Sprintf("%d of %d concurrent readers saw something else than the sequential reader", bad, goroutines), st, nil)
			}
		}
		yang.VerifSetYield(nil)
		h := fnv.New64a()
		for _, o := range order {
			h.Write([]byte{byte(o >> 8), byte(o)})
		}
		y.mu.Lock()
		h.Write(y.trace)
		y.mu.Unlock()
		for pt, ix := range pointIndex {
			s.Count("yield_point_arrivals:"+pt, atomic.LoadInt64(&y.counts[ix]))
		}
		s.Seen("interleaving_signatures", fmt.Sprintf("%x", h.Sum64()))
		if c%100 == 1 {
			s.Sample(1, map[string]any{"round": c, "kind": "readers", "goroutines": goroutines})
		}
	}
}

// errorReaders: the error accessor has something to read only where Process found errors.
// A module whose leaves (and empty containers) carry two or three errors of their own -
// recorded in an order that is not the sorted one - is processed, then 16 goroutines call
// GetErrors on every entry of the cached tree at once (on each entry itself, not only on
// the root); each must see what a sequential reader sees, before and after.
func errorReaders(j *job.Job, s *job.Sink, c int64, arrive func(int)) {
	r := prng.For(j.Seed, "C19", "errorreaders", c)
	var b strings.Builder
	b.WriteString("module zze {\n  namespace \"urn:zze\";\n  prefix zze;\n  container top {\n")
	n := 20 + r.Intn(40)
	for k := 0; k < n; k++ {
		ty := []string{"uint8 { range \"300..400\"; }", "decimal64", "string { length \"5..2\"; }", "nosuchtype", "union { type nosuchmember; type uint8 { range \"0..256\"; } }"}[r.Intn(5)]
		if !strings.HasSuffix(ty, "}") {
			ty += ";"
		}
		switch r.Intn(4) {
		case 0:
			fmt.Fprintf(&b, "    leaf l%d { type %s config maybe; }\n", k, ty)
		case 1:
			fmt.Fprintf(&b, "    leaf-list l%d { type %s config maybe; max-elements many; min-elements few; }\n", k, ty)
		case 2:
			fmt.Fprintf(&b, "    container l%d { config maybe; }\n", k)
		default:
			fmt.Fprintf(&b, "    leaf l%d { type %s mandatory perhaps; config maybe; }\n", k, ty)
		}
	}
	b.WriteString("  }\n}\n")
	ms := yang.NewModules()
	if err := ms.Parse(b.String(), "zze.yang"); err != nil {
		s.Count("error_reader_texts_rejected", 1)
		return
	}
	if errs := ms.Process(); len(errs) == 0 {
		s.Count("error_reader_sets_without_errors", 1)
		return
	}
	root := yang.ToEntry(ms.Modules["zze"]) // from the cache: Process built it
	view := func() string {
		var out strings.Builder
		walk(root, func(e *yang.Entry) {
			fmt.Fprintf(&out, "%s:", e.Path())
			for _, err := range e.GetErrors() {
				fmt.Fprintf(&out, " [%v]", err)
			}
			out.WriteString("\n")
		})
		return out.String()
	}
	multi := 0
	walk(root, func(e *yang.Entry) {
		if len(e.Dir) == 0 && len(e.Errors) >= 2 {
			multi++
		}
	})
	s.Count("error_reader_entries_with_several_own_errors", int64(multi))
	before := view()
	views := make([]string, goroutines)
	start := make(chan struct{})
	var wg sync.WaitGroup
	for g := 0; g < goroutines; g++ {
		wg.Add(1)
		go func(g int) {
			defer wg.Done()
			<-start
			arrive(g)
			views[g] = view()
		}(g)
	}
	close(start)
	wg.Wait()
	after := view()
	bad := 0
	for g := range views {
		if views[g] != before {
			bad++
		}
	}
	s.Count("error_reader_views", goroutines)
	if bad > 0 || after != before {
		s.Violation(c, j.CaseID(c), "C19.result", "reader-result-differs", fmt.Sprintf("error accessor: %d of %d concurrent readers saw other error lists than the sequential reader before them; the sequential reader after them agrees with the one before: %v", bad, goroutines, after == before), map[string]string{"zze.yang": b.String()}, nil)
	}
}

// stableSequentially re-runs the sets one after the other: a set whose sequential result
// itself changes from run to run is not evidence of interference (that is C05's subject),
// so a difference is only blamed on concurrency when three more sequential runs all
// reproduce the reference.
func stableSequentially(sets []set, want []string, s *job.Sink) bool {
	for k := 0; k < 3; k++ {
		for g := range sets {
			ms, errs := load(sets[g])
			if dump.Set(ms, errs, true) != want[g] {
				s.Count("sequentially_unstable_sets_not_blamed_on_concurrency", 1)
				return false
			}
		}
	}
	return true
}

// ColdStart: every shard is a fresh process whose very first use of the library is a
// burst of concurrent loads (whatever the package builds lazily on first use is built
// by racing goroutines, if it is built lazily at all); the same loads are then repeated
// one after the other and compared. The race detector watches the burst.
func ColdStart(j *job.Job, s *job.Sink) {
	s.Current(int64(j.Shard), map[string]any{"shard": j.Shard, "kind": "cold start"})
	sets := make([]set, goroutines)
	for g := range sets {
		sets[g] = gen(j.Seed, int64(j.Shard)*goroutines+int64(g)+1<<40)
	}
	got := make([]string, goroutines)
	start := make(chan struct{})
	var wg sync.WaitGroup
	for g := 0; g < goroutines; g++ {
		wg.Add(1)
		go func(g int) {
			defer wg.Done()
			defer func() {
				if rec := recover(); rec != nil {
					got[g] = fmt.Sprint("PANIC ", rec)
				}
			}()
			<-start
			ms, errs := load(sets[g])
			got[g] = dump.Set(ms, errs, true)
		}(g)
	}
	close(start)
	wg.Wait()
	bad := 0
	first := ""
	for g := range sets {
		ms, errs := load(sets[g])
		if want := dump.Set(ms, errs, true); want != got[g] {
			bad++
			if first == "" {
				a, b := strings.Split(got[g], "\n"), strings.Split(want, "\n")
				for i := 0; i < len(a) && i < len(b); i++ {
					if a[i] != b[i] {
						first = fmt.Sprintf("concurrent %q, sequential %q", a[i], b[i])
						break
					}
				}
			}
		}
	}
	s.Count("cold_start_processes", 1)
	s.Count("cold_start_pipeline_runs", goroutines)
	s.Count("rounds", 1)
	s.Count("nontrivial", 1)
	if bad > 0 {
		s.Violation(int64(j.Shard), j.CaseID(int64(j.Shard)), "C19.result", "cold-start-result-differs", fmt.Sprintf("%d of %d first loads of a fresh process, run concurrently, differ from the same loads repeated sequentially: %s", bad, goroutines, first), sets[0], nil)
	}
}
