// Package w14 is the workload and monitor of C14 (enum values and bit positions).
package w14

import (
	"fmt"
	"math/big"
	"sort"
	"strconv"
	"strings"

	"github.com/openconfig/goyang/pkg/yang"
	"verif/internal/exact"
	"verif/internal/job"
)

var values = []int64{-1<<31 - 1, -1 << 31, -1<<31 + 1, -5, -1, 0, 1, 5, 1<<31 - 2, 1<<31 - 1, 1 << 31, 1<<32 - 2, 1<<32 - 1, 1 << 32}

// the empty name is an ordinary key for Set/SetNext (whose uniqueness guarantees do not
// depend on what the names look like); RFC 7950 forbids it in a schema, so sequences
// containing it are driven through the API only
var names = []string{"a", "b", "c", ""}

func options() []exact.Member {
	var opts []exact.Member
	for _, n := range names {
		opts = append(opts, exact.Member{Name: n})
		for _, v := range values {
			opts = append(opts, exact.Member{Name: n, Explicit: true, Value: v})
		}
	}
	return opts
}

func seqString(seq []exact.Member) string {
	var p []string
	for _, m := range seq {
		if m.Explicit {
			p = append(p, fmt.Sprintf("%q=%d", m.Name, m.Value))
		} else {
			p = append(p, fmt.Sprintf("%q", m.Name))
		}
	}
	return strings.Join(p, " ")
}

// CheckAPI drives NewEnumType/NewBitfield with Set/SetNext.
func CheckAPI(seq []exact.Member, bits bool) (class, detail string, facts map[string]any) {
	var e *yang.EnumType
	if bits {
		e = yang.NewBitfield()
	} else {
		e = yang.NewEnumType()
	}
	// A rejected call assigns nothing: the members accepted so far stay as they are, and
	// what comes after is judged as if the rejected member had not been written.
	var accepted []exact.Member
	runningMax := int64(0)
	have := false
	for i, m := range seq {
		var err error
		if m.Explicit {
			err = e.Set(m.Name, m.Value)
		} else {
			err = e.SetNext(m.Name)
		}
		facts = map[string]any{"bits": bits, "implicit": !m.Explicit, "have_earlier": have, "running_max": runningMax, "after_a_rejected_member": len(accepted) < i}
		want, invalidAt, reason := exact.Assign(append(append([]exact.Member{}, accepted...), m), bits)
		if invalidAt >= 0 {
			if err == nil {
				return "accepts-invalid", fmt.Sprintf("member %d of [%s] accepted, reference: %s", i, seqString(seq), reason), facts
			}
			continue
		}
		if err != nil {
			return "rejects-valid", fmt.Sprintf("member %d of [%s]: %v", i, seqString(seq), err), facts
		}
		w := want[len(want)-1]
		if got := e.Value(m.Name); got != w || !e.IsDefined(m.Name) {
			return "value", fmt.Sprintf("member %d of [%s] = %d, RFC value %d", i, seqString(seq), got, w), facts
		}
		accepted = append(accepted, m)
		if !have || w > runningMax {
			runningMax = w
		}
		have = true
	}
	seq = accepted
	nm := e.NameMap()
	if len(nm) != len(seq) {
		return "name-map", fmt.Sprintf("[%s]: NameMap has %d entries", seqString(seq), len(nm)), nil
	}
	if !bits {
		vm := e.ValueMap()
		if len(vm) != len(nm) {
			return "inverse", fmt.Sprintf("[%s]: NameMap %v ValueMap %v", seqString(seq), nm, vm), nil
		}
		for n, v := range nm {
			if vm[v] != n || e.Name(v) != n {
				return "inverse", fmt.Sprintf("[%s]: NameMap %v ValueMap %v", seqString(seq), nm, vm), nil
			}
		}
	}
	ns, vs := e.Names(), e.Values()
	if !sort.StringsAreSorted(ns) || !sort.SliceIsSorted(vs, func(i, j int) bool { return vs[i] < vs[j] }) {
		return "unsorted-view", fmt.Sprintf("[%s]: Names %v Values %v", seqString(seq), ns, vs), nil
	}
	// the views are results: a caller that edits the map it was given (drops a member, adds
	// one) leaves the enumeration and its two views as they were
	before := fmt.Sprint(ns, vs, len(e.NameMap()))
	for n := range nm {
		delete(nm, n)
		break
	}
	nm["zzedited"] = 123456
	if !bits {
		vm := e.ValueMap()
		for v := range vm {
			delete(vm, v)
			break
		}
		vm[654321] = "zzedited2"
	}
	if after := fmt.Sprint(e.Names(), e.Values(), len(e.NameMap())); after != before || e.IsDefined("zzedited") || e.IsDefined("zzedited2") {
		return "view-is-not-a-copy", fmt.Sprintf("[%s]: after editing the maps returned by NameMap and ValueMap the enumeration reads %s, before %s", seqString(seq), after, before), nil
	}
	return "", "", nil
}

// CheckSchema puts the sequence into a module and observes Process and Entry.Type.
func CheckSchema(seq []exact.Member, bits bool) (class, detail string) {
	return CheckSchemaAt(seq, bits, 0)
}

// CheckSchemaAt writes the member list in one of five places ((4) the second of two same-kind members of a union): (0) the type statement of a
// leaf, (1) a typedef the leaf uses through a second typedef, (2) the second member of a
// union, (3) a type statement that refers to a typedef of the same kind which has members of
// its own (goyang reads such a list as the type's member list; re-listing as a YANG 1.1
// restriction is not implemented), so the written list is what counts in all four.
func CheckSchemaAt(seq []exact.Member, bits bool, place int) (class, detail string) {
	var b strings.Builder
	kind := "enumeration"
	if bits {
		kind = "bits"
	}
	tail := " } } }"
	switch place {
	case 1:
		b.WriteString("module m { namespace \"urn:m\"; prefix m; typedef t2 { type t1; } leaf l { type t2; } typedef t1 { type " + kind + " {")
	case 2:
		b.WriteString("module m { namespace \"urn:m\"; prefix m; leaf l { type union { type string; type " + kind + " {")
		tail = " } } } }"
	case 5:
		// the type that a deviation gives to a leaf: its member list is checked like any other
		b.WriteString("module m { namespace \"urn:m\"; prefix m; leaf l { type string; } deviation /m:l { deviate replace { type " + kind + " {")
		tail = " } } } }"
	case 4:
		// the second of two members of the same kind in one union: a type of its own, with its
		// own faults, whatever the first one is like
		first := "enum zzp; enum zzq;"
		if bits {
			first = "bit zzp; bit zzq;"
		}
		b.WriteString("module m { namespace \"urn:m\"; prefix m; leaf l { type union { type " + kind + " { " + first + " } type " + kind + " {")
		tail = " } } } }"
	case 3:
		own := "enum zz0; enum zz1 { value 5; } enum zz2;"
		if bits {
			own = "bit zz0; bit zz1 { position 5; } bit zz2;"
		}
		b.WriteString("module m { namespace \"urn:m\"; prefix m; typedef base { type " + kind + " { " + own + " } } leaf l { type base {")
	default:
		b.WriteString("module m { namespace \"urn:m\"; prefix m; leaf l { type " + kind + " {")
	}
	for mi, m := range seq {
		kw, vk := "enum", "value"
		if bits {
			kw, vk = "bit", "position"
		}
		// members may carry a status and a description: an obsolete or deprecated member is a
		// member all the same, it keeps its value and counts for the ones after it
		deco := []string{"", " status obsolete;", " status deprecated; description \"d\";", " description \"x\"; status current;"}[(mi+place+len(seq))%4]
		switch {
		case m.Explicit:
			fmt.Fprintf(&b, " %s %s { %s %d;%s }", kw, m.Name, vk, m.Value, deco)
		case deco != "":
			fmt.Fprintf(&b, " %s %s {%s }", kw, m.Name, deco)
		default:
			fmt.Fprintf(&b, " %s %s;", kw, m.Name)
		}
	}
	b.WriteString(tail)
	want, invalidAt, reason := exact.Assign(seq, bits)
	ms := yang.NewModules()
	if err := ms.Parse(b.String(), "m.yang"); err != nil {
		return "parse", err.Error()
	}
	errs := ms.Process()
	if len(b.String())%3 == 0 {
		errs = ms.Process() // every third schema is processed twice: the second run must say the same
	}
	if invalidAt >= 0 {
		if len(errs) == 0 {
			return "schema-accepts-invalid", fmt.Sprintf("[%s] processed cleanly, reference: %s at member %d", seqString(seq), reason, invalidAt)
		}
		return "", ""
	}
	if len(errs) > 0 {
		return "schema-rejects-valid", fmt.Sprintf("[%s]: %v", seqString(seq), errs[0])
	}
	t := yang.ToEntry(ms.Modules["m"]).Dir["l"].Type
	if place == 2 || place == 4 {
		if len(t.Type) != 2 {
			return "schema-no-type", seqString(seq)
		}
		t = t.Type[1]
	}
	et := t.Enum
	if bits {
		et = t.Bit
	}
	if et == nil {
		return "schema-no-type", seqString(seq)
	}
	nm := et.NameMap()
	if len(nm) != len(seq) {
		return "schema-members", fmt.Sprintf("[%s] (place %d): the type has the members %v", seqString(seq), place, nm)
	}
	for i, m := range seq {
		if nm[m.Name] != want[i] {
			return "schema-value", fmt.Sprintf("[%s]: %s = %d, RFC value %d", seqString(seq), m.Name, nm[m.Name], want[i])
		}
	}
	// the resolved type goes on where the statements stopped: a member added through the API
	// gets one more than the highest value so far, or is refused at the top of the range
	max := want[0]
	for _, v := range want {
		if v > max {
			max = v
		}
	}
	top := int64(2147483647)
	if bits {
		top = 4294967295
	}
	err := et.SetNext("zznext")
	switch {
	case max == top && err == nil:
		return "schema-next-after-resolution", fmt.Sprintf("[%s] (place %d): SetNext after resolution accepted a member beyond the maximum, as %d", seqString(seq), place, et.Value("zznext"))
	case max < top && err != nil:
		return "schema-next-after-resolution", fmt.Sprintf("[%s] (place %d): SetNext after resolution: %v", seqString(seq), place, err)
	case max < top && et.Value("zznext") != max+1:
		return "schema-next-after-resolution", fmt.Sprintf("[%s] (place %d): SetNext after resolution gave %d, one more than the highest value is %d", seqString(seq), place, et.Value("zznext"), max+1)
	}
	return "", ""
}

// Enum enumerates all member sequences up to params[maxlen]; the first member selects the shard.
func Enum(j *job.Job, s *job.Sink) {
	maxLen, _ := strconv.Atoi(j.Params["maxlen"])
	schemaEvery, _ := strconv.Atoi(j.Params["schema_every"])
	if schemaEvery == 0 {
		schemaEvery = 50
	}
	opts := options()
	var idx int64
	var rec func(seq []exact.Member)
	rec = func(seq []exact.Member) {
		idx++
		if idx%4096 == 0 {
			s.Current(idx, map[string]any{"sequence": seqString(seq)})
		}
		for _, bits := range []bool{false, true} {
			s.Count("sequences", 1)
			if len(seq) >= 2 {
				s.Count("nontrivial", 1)
			}
			if c, d, f := CheckAPI(seq, bits); c != "" {
				s.Violation(idx, j.CaseID(idx), "C14.api", c, d, map[string]any{"sequence": seqString(seq), "bits": bits}, f)
			}
			hasEmpty := false
			for _, m := range seq {
				hasEmpty = hasEmpty || m.Name == ""
			}
			if idx%int64(schemaEvery) == 0 && !hasEmpty {
				s.Count("schema_cases", 1)
				place := int(idx/int64(schemaEvery)) % 6
				s.Count(fmt.Sprintf("schema_cases_place_%d", place), 1)
				if c, d := CheckSchemaAt(seq, bits, place); c != "" {
					s.Violation(idx, j.CaseID(idx), "C14.schema", c, d, map[string]any{"sequence": seqString(seq), "bits": bits, "place": place}, nil)
				}
			}
		}
		if idx%50021 == 0 {
			s.Sample(2, map[string]any{"sequence": seqString(seq)})
		}
		if len(seq) == maxLen {
			return
		}
		for _, o := range opts {
			rec(append(seq, o))
		}
	}
	for k, o := range opts {
		if k%j.Shards == j.Shard {
			rec([]exact.Member{o})
		}
	}
}

// Literal drives explicit values and positions written as literals far outside 64 bits
// through a module (the Set/SetNext interface takes an int64 and cannot express them): a
// value outside the int32 range, or a position outside the uint32 range, must be
// rejected whatever its magnitude - in particular when it would wrap into range.
func Literal(j *job.Job, s *job.Sink) {
	two := big.NewInt(2)
	pow := func(n int64) *big.Int { return new(big.Int).Exp(two, big.NewInt(n), nil) }
	var lits []*big.Int
	for _, base := range []*big.Int{pow(31), pow(32), pow(63), pow(64), pow(65), pow(128), new(big.Int).Mul(pow(64), big.NewInt(3))} {
		for d := int64(-9); d <= 9; d++ {
			v := new(big.Int).Add(base, big.NewInt(d))
			lits = append(lits, v, new(big.Int).Neg(v))
		}
	}
	for d := int64(-9); d <= 9; d++ {
		lits = append(lits, big.NewInt(d))
	}
	// arguments that are no number at all (an empty one must not be read as "no value given")
	for _, junk := range []string{"", " ", "abc", "1 2", "--1", "1.5", "0..1"} {
		for _, bits := range []bool{false, true} {
			kw, vk := "enum", "value"
			if bits {
				kw, vk = "bit", "position"
			}
			text := fmt.Sprintf("module m { namespace \"urn:m\"; prefix m; leaf l { type %s { %s a { %s 7; } %s b { %s %q; } %s c; } } }", map[bool]string{false: "enumeration", true: "bits"}[bits], kw, vk, kw, vk, junk, kw)
			if j.Shard != 0 {
				continue
			}
			s.Count("literal_cases", 1)
			s.Count("nontrivial", 1)
			ms := yang.NewModules()
			if err := ms.Parse(text, "m.yang"); err != nil {
				continue // rejected even earlier
			}
			if errs := ms.Process(); len(errs) == 0 {
				s.Violation(0, j.CaseID(0), "C14.literal", "accepts-non-numeric", fmt.Sprintf("%s %q of b was accepted: %s", vk, junk, text), map[string]any{"text": text}, nil)
			}
		}
	}
	pres := [][]exact.Member{nil, {{Name: "a"}}, {{Name: "a", Explicit: true, Value: 5}}, {{Name: "a", Explicit: true, Value: -3}}}
	var idx int64
	for li, lit := range lits {
		if li%j.Shards != j.Shard {
			continue
		}
		for _, pre := range pres {
			for _, post := range []bool{false, true} {
				for _, bits := range []bool{false, true} {
					idx++
					kw, vk := "enum", "value"
					lo, hi := big.NewInt(-1<<31), big.NewInt(1<<31-1)
					if bits {
						kw, vk = "bit", "position"
						lo, hi = big.NewInt(0), big.NewInt(1<<32-1)
					}
					var b strings.Builder
					fmt.Fprintf(&b, "module m { namespace \"urn:m\"; prefix m; leaf l { type %s {", map[bool]string{false: "enumeration", true: "bits"}[bits])
					seq := append([]exact.Member{}, pre...)
					preOK := true
					for _, m := range pre {
						if m.Explicit {
							fmt.Fprintf(&b, " %s %s { %s %d; }", kw, m.Name, vk, m.Value)
							if bits && m.Value < 0 {
								preOK = false
							}
						} else {
							fmt.Fprintf(&b, " %s %s;", kw, m.Name)
						}
					}
					fmt.Fprintf(&b, " %s b { %s %s; }", kw, vk, lit.String())
					if post {
						fmt.Fprintf(&b, " %s c;", kw)
					}
					b.WriteString(" } } }")
					text := b.String()
					if idx%64 == 0 {
						s.Current(idx, map[string]any{"text": text})
					}
					s.Count("literal_cases", 1)
					s.Count("nontrivial", 1)
					inRange := lit.Cmp(lo) >= 0 && lit.Cmp(hi) <= 0
					ms := yang.NewModules()
					if err := ms.Parse(text, "m.yang"); err != nil {
						s.Violation(idx, j.CaseID(idx), "C14.literal", "parse", err.Error(), map[string]any{"text": text}, nil)
						continue
					}
					errs := ms.Process()
					if len(text)%3 == 0 {
						errs = ms.Process()
					}
					if !inRange || !preOK {
						if len(errs) == 0 {
							s.Violation(idx, j.CaseID(idx), "C14.literal", "accepts-out-of-range", fmt.Sprintf("%s %s of b is outside %s..%s and was accepted: %s", vk, lit, lo, hi, text), map[string]any{"text": text}, nil)
						}
						continue
					}
					seq = append(seq, exact.Member{Name: "b", Explicit: true, Value: lit.Int64()})
					if post {
						seq = append(seq, exact.Member{Name: "c"})
					}
					want, invalidAt, _ := exact.Assign(seq, bits)
					if invalidAt >= 0 {
						if len(errs) == 0 {
							s.Violation(idx, j.CaseID(idx), "C14.literal", "accepts-invalid", text, map[string]any{"text": text}, nil)
						}
						continue
					}
					if len(errs) > 0 {
						s.Violation(idx, j.CaseID(idx), "C14.literal", "rejects-valid", fmt.Sprintf("%v: %s", errs[0], text), map[string]any{"text": text}, nil)
						continue
					}
					t := yang.ToEntry(ms.Modules["m"]).Dir["l"].Type
					et := t.Enum
					if bits {
						et = t.Bit
					}
					nm := et.NameMap()
					for i, m := range seq {
						if nm[m.Name] != want[i] {
							s.Violation(idx, j.CaseID(idx), "C14.literal", "value", fmt.Sprintf("%s = %d, RFC value %d: %s", m.Name, nm[m.Name], want[i], text), map[string]any{"text": text}, nil)
						}
					}
					if idx%997 == 0 {
						s.Sample(1, map[string]any{"text": text})
					}
				}
			}
		}
	}
}
