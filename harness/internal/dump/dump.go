// Package dump renders everything observable of a processed module set as
// deterministic text (DESIGN.md 4.3).
package dump

import (
	"fmt"
	"reflect"
	"sort"
	"strings"

	"github.com/openconfig/goyang/pkg/yang"
)

func typ(b *strings.Builder, t *yang.YangType, ind string, depth int, pos bool) {
	if t == nil {
		fmt.Fprintf(b, "%stype <nil>\n", ind)
		return
	}
	fmt.Fprintf(b, "%stype name=%s kind=%v units=%q default=%q hasdef=%v fd=%d range=%v length=%v pattern=%q posix=%q path=%q optinst=%v", ind, t.Name, t.Kind, t.Units, t.Default, t.HasDefault, t.FractionDigits, t.Range, t.Length, t.Pattern, t.POSIXPattern, t.Path, t.OptionalInstance)
	if t.Root != nil {
		fmt.Fprintf(b, " root=%s", t.Root.Name)
	}
	if t.Enum != nil {
		fmt.Fprintf(b, " enum=%v/%v", t.Enum.Names(), t.Enum.Values())
	}
	if t.Bit != nil {
		fmt.Fprintf(b, " bit=%v/%v", t.Bit.Names(), t.Bit.Values())
	}
	if t.IdentityBase != nil {
		fmt.Fprintf(b, " idbase=%s vals=[", t.IdentityBase.PrefixedName())
		for _, v := range t.IdentityBase.Values {
			fmt.Fprintf(b, "%s ", idName(v, pos))
		}
		b.WriteString("]")
	}
	b.WriteString("\n")
	if depth < 8 {
		for _, m := range t.Type {
			typ(b, m, ind+"  |", depth+1, pos)
		}
	}
}

// extArgs lists the extension statements of an entry (keyword and argument, in order).
func extArgs(e *yang.Entry) string {
	var xs []string
	for _, x := range e.Exts {
		xs = append(xs, fmt.Sprintf("%s %q", x.Keyword, x.Argument))
	}
	return "[" + strings.Join(xs, ", ") + "]"
}

func entry(b *strings.Builder, e *yang.Entry, ind string, pos bool) {
	im, imerr := e.InstantiatingModule()
	ime := ""
	if imerr != nil {
		ime = "ERR(" + imerr.Error() + ")"
	}
	la := ""
	if e.ListAttr != nil {
		la = fmt.Sprintf(" min=%d max=%d ordUser=%v", e.ListAttr.MinElements, e.ListAttr.MaxElements, e.ListAttr.OrderedByUser)
	}
	pfx := ""
	if e.Prefix != nil {
		pfx = e.Prefix.Name
	}
	src := ""
	if pos {
		src = " src=" + yang.Source(e.Node)
	}
	if e.Kind == yang.InputEntry || e.Kind == yang.OutputEntry {
		// where the node says it stands (its parent chain): the input and output of an rpc
		// or action hang off the RPC field, not off a child map, so only this shows whether
		// a copy points back at its own rpc
		src += " path=" + e.Path()
	}
	fmt.Fprintf(b, "%s%s kind=%v key=%q cfg=%v ro=%v mand=%v def=%q defvals=%q units=%q ns=%q im=%s%s pfx=%s desc=%q%s exts=%s augmented=%d augments=%d%s\n", ind, e.Name, e.Kind, e.Key, e.Config, e.ReadOnly(), e.Mandatory, e.Default, e.DefaultValues(), e.Units, e.Namespace().Name, im, ime, pfx, e.Description, la, extArgs(e), len(e.Augmented), len(e.Augments), src)
	// the extra keywords kept on the entry (if-feature, must, when, status, reference, ...)
	var xs []string
	for k := range e.Extra {
		xs = append(xs, k)
	}
	sort.Strings(xs)
	for _, k := range xs {
		if len(e.Extra[k]) == 0 {
			continue
		}
		fmt.Fprintf(b, "%s  +%s", ind, k)
		for _, v := range e.Extra[k] {
			fmt.Fprintf(b, " %s", extra(v, pos))
		}
		b.WriteString("\n")
	}
	if e.Type != nil || e.Kind == yang.LeafEntry {
		typ(b, e.Type, ind+"  :", 0, pos)
	}
	for _, err := range e.Errors {
		fmt.Fprintf(b, "%s  !error %s\n", ind, err)
	}
	if e.RPC != nil {
		if e.RPC.Input != nil {
			entry(b, e.RPC.Input, ind+"  >", pos)
		}
		if e.RPC.Output != nil {
			entry(b, e.RPC.Output, ind+"  <", pos)
		}
	}
	var ks []string
	for k := range e.Dir {
		ks = append(ks, k)
	}
	sort.Strings(ks)
	for _, k := range ks {
		if e.Dir[k].Name != k {
			fmt.Fprintf(b, "%s  !key %q\n", ind, k)
		}
		entry(b, e.Dir[k], ind+"  ", pos)
	}
}

// extra renders one element of Entry.Extra (they hold AST nodes; what matters is which
// statement each one is).
func extra(v interface{}, pos bool) string {
	if n, ok := v.(yang.Node); ok && n != nil && !reflect.ValueOf(n).IsNil() {
		if !pos {
			return fmt.Sprintf("%s:%q", n.Kind(), n.NName())
		}
		return fmt.Sprintf("%s:%q@%s", n.Kind(), n.NName(), yang.Source(n))
	}
	return fmt.Sprintf("%T", v)
}

// Set dumps a processed module set.
func Set(ms *yang.Modules, errs []error, pos bool) string {
	var b strings.Builder
	for _, e := range errs {
		fmt.Fprintf(&b, "ERROR %s\n", e)
	}
	if len(errs) > 0 {
		return b.String()
	}
	for _, mm := range []map[string]*yang.Module{ms.Modules, ms.SubModules} {
		var ks []string
		for k := range mm {
			ks = append(ks, k)
		}
		sort.Strings(ks)
		for _, k := range ks {
			m := mm[k]
			fmt.Fprintf(&b, "MODULE key=%s full=%s kind=%s\n", k, m.FullName(), m.Kind())
			for _, im := range m.Import {
				if im.Module != nil {
					fmt.Fprintf(&b, "  import %s -> %s\n", im.Name, im.Module.FullName())
				}
			}
			if k != m.FullName() {
				continue
			}
			e := yang.ToEntry(m)
			entry(&b, e, "  ", pos)
			ids := append([]*yang.Identity{}, e.Identities...)
			if !pos {
				// (masked mode compares a module with the same module split into
				// submodules: which file an identity stands in decides its place in
				// this list, and is not to matter)
				sort.SliceStable(ids, func(i, j int) bool { return ids[i].Name < ids[j].Name })
			}
			for _, id := range ids {
				fmt.Fprintf(&b, "  identity %s:", id.Name)
				for _, v := range id.Values {
					fmt.Fprintf(&b, " %s", idName(v, pos))
				}
				b.WriteString("\n")
			}
		}
	}
	return b.String()
}

// idName names an identity by the module (name and revision) that defines it, not by its prefix: two modules may
// declare the same prefix, and then prefix:name does not tell their identities apart.
func idName(v *yang.Identity, pos bool) string {
	if r := yang.RootNode(v); r != nil {
		if !pos {
			// masked mode: the module the identity belongs to, whichever of its files
			// defines it
			if r.Kind() == "submodule" && r.BelongsTo != nil {
				return r.BelongsTo.Name + "/" + v.Name
			}
			return r.Name + "/" + v.Name
		}
		return r.FullName() + "/" + v.PrefixedName()
	}
	return "?/" + v.PrefixedName()
}

// Entry dumps one subtree.
func Entry(e *yang.Entry, pos bool) string {
	var b strings.Builder
	entry(&b, e, "", pos)
	return b.String()
}
