// Package rfclex is an independent reader of generic YANG statements written from
// RFC 7950 section 6.1-6.3 (not from goyang's lexer). It is the oracle of C02 and C16.
package rfclex

import (
	"strings"
	"unicode/utf8"
)

type Kind int

const (
	KEOF Kind = iota
	KSemi
	KLBrace
	KRBrace
	KUnq
	KStr
)

type Tok struct {
	K         Kind
	Text      string // value for KUnq/KStr
	Line, Col int    // 1-based, col in characters
	Pos       int    // byte offset
	Double    bool   // KStr: double quoted
	raw       string // raw body for double quoted strings (between quotes)
	qcol      int    // tab-expanded 1-based column of opening quote
}

type Stmt struct {
	Keyword   string
	HasArg    bool
	Arg       string
	Sub       []*Stmt
	Line, Col int
}

type Result struct {
	Forest     []*Stmt
	Reject     bool
	RejectKind string
	RLine      int
	RCol       int
	OutOfClaim string // non-empty: text contains an excluded/ambiguous construct
}

type scanner struct {
	s         string
	i         int
	line, col int // col: 0-based char col
	tcol      int // 0-based tab expanded col
}

func (sc *scanner) peekRune() (rune, int) {
	if sc.i >= len(sc.s) {
		return -1, 0
	}
	return utf8.DecodeRuneInString(sc.s[sc.i:])
}

func (sc *scanner) adv() rune {
	r, w := sc.peekRune()
	if w == 0 {
		return -1
	}
	sc.i += w
	switch r {
	case '\n':
		sc.line++
		sc.col = 0
		sc.tcol = 0
	case '\t':
		sc.col++
		sc.tcol = (sc.tcol + 8) &^ 7
	default:
		sc.col++
		sc.tcol++
	}
	return r
}

func isBlank(r rune) bool { return r == ' ' || r == '\t' || r == '\r' || r == '\n' }
func isDelim(r rune) bool {
	return isBlank(r) || r == ';' || r == '{' || r == '}' || r == '"' || r == '\'' || r == -1
}

type lexErr struct {
	kind      string
	line, col int
}

// tokens scans the whole text.  Returns tokens, an error (first lexical fault)
// and an out-of-claim reason.
func tokens(text string) ([]Tok, *lexErr, string) {
	sc := &scanner{s: text, line: 1}
	var toks []Tok
	ooc := ""
	for {
		// skip blanks and comments
		for {
			r, _ := sc.peekRune()
			if r != -1 && isBlank(r) {
				sc.adv()
				continue
			}
			if r == '/' && strings.HasPrefix(sc.s[sc.i:], "//") {
				l, c := sc.line, sc.col
				_ = l
				_ = c
				for {
					r, _ := sc.peekRune()
					if r == -1 || r == '\n' {
						break
					}
					sc.adv()
				}
				continue
			}
			if r == '/' && strings.HasPrefix(sc.s[sc.i:], "/*") {
				l, c := sc.line, sc.col
				end := strings.Index(sc.s[sc.i+2:], "*/")
				if end < 0 {
					return toks, &lexErr{"unterminated-comment", l, c + 1}, ooc
				}
				stop := sc.i + 2 + end + 2
				for sc.i < stop {
					sc.adv()
				}
				continue
			}
			break
		}
		r, _ := sc.peekRune()
		if r == -1 {
			return toks, nil, ooc
		}
		t := Tok{Line: sc.line, Col: sc.col + 1, Pos: sc.i}
		switch r {
		case ';':
			sc.adv()
			t.K = KSemi
		case '{':
			sc.adv()
			t.K = KLBrace
		case '}':
			sc.adv()
			t.K = KRBrace
		case '\'':
			sc.adv()
			end := strings.IndexByte(sc.s[sc.i:], '\'')
			if end < 0 {
				return toks, &lexErr{"unterminated-squote", t.Line, t.Col}, ooc
			}
			t.K = KStr
			t.Text = sc.s[sc.i : sc.i+end]
			stop := sc.i + end + 1
			for sc.i < stop {
				sc.adv()
			}
		case '"':
			t.qcol = sc.tcol + 1
			sc.adv()
			start := sc.i
			closed := false
			for {
				r := sc.adv()
				if r == -1 {
					break
				}
				if r == '\\' {
					if sc.adv() == -1 {
						break
					}
					continue
				}
				if r == '"' {
					closed = true
					break
				}
			}
			if !closed {
				return toks, &lexErr{"unterminated-dquote", t.Line, t.Col}, ooc
			}
			t.K = KStr
			t.Double = true
			t.raw = sc.s[start : sc.i-1]
		default:
			start := sc.i
			for {
				r, _ := sc.peekRune()
				if isDelim(r) {
					break
				}
				sc.adv()
			}
			t.K = KUnq
			t.Text = sc.s[start:sc.i]
			// a lone "+" directly followed by a quote is its own token: already so,
			// because the quote is a delimiter.
			if strings.Contains(t.Text, "//") || strings.Contains(t.Text, "/*") || strings.Contains(t.Text, "*/") {
				ooc = "comment-sequence-in-unquoted"
			}
		}
		toks = append(toks, t)
	}
}

// dq computes the value of a double quoted string body.  line/col give the
// position of the opening quote (for error positions), qcol its tab-expanded
// 1-based column.  pattern: unknown escapes are preserved.
// Returns value, error (position of backslash), out-of-claim reason.
func dq(raw string, line, col, qcol int, pattern bool) (string, *lexErr, string) {
	var out []byte
	ooc := ""
	// position tracking inside the string: first char after the quote.
	l, c := line, col // c is 1-based col of the quote; next char is c+1
	c++
	// "fromEscape" marks which bytes of out were produced by an escape and are blanks
	var escBlank []bool
	i := 0
	atLineStart := false // true right after a literal line break, while still in strip zone
	tc := 0              // tab-expanded 0-based column on continuation lines
	for i < len(raw) {
		r, w := utf8.DecodeRuneInString(raw[i:])
		switch {
		case r == '\\':
			atLineStart = false
			// escape
			if i+w >= len(raw) {
				// cannot happen: scanner guarantees a char follows
				return "", &lexErr{"bad-escape", l, c}, ooc
			}
			r2, w2 := utf8.DecodeRuneInString(raw[i+w:])
			switch r2 {
			case 'n':
				out = append(out, '\n')
				escBlank = append(escBlank, false)
			case 't':
				out = append(out, '\t')
				escBlank = append(escBlank, true)
			case '"':
				out = append(out, '"')
				escBlank = append(escBlank, false)
			case '\\':
				out = append(out, '\\')
				escBlank = append(escBlank, false)
			default:
				if !pattern {
					return "", &lexErr{"bad-escape", l, c}, ooc
				}
				out = append(out, '\\')
				escBlank = append(escBlank, false)
				b := []byte(string(r2))
				for range b {
					escBlank = append(escBlank, false)
				}
				out = append(out, b...)
			}
			// advance position over two runes
			if r2 == '\n' {
				l++
				c = 1
			} else {
				c += 2
			}
			i += w + w2
			continue
		case r == '\n':
			// strip trailing blanks
			for len(out) > 0 && (out[len(out)-1] == ' ' || out[len(out)-1] == '\t') {
				if escBlank[len(out)-1] {
					ooc = "escape-produced-blank-before-linebreak"
				}
				out = out[:len(out)-1]
				escBlank = escBlank[:len(escBlank)-1]
			}
			if len(out) > 0 && out[len(out)-1] == '\r' {
				ooc = "crlf-in-dq"
			}
			out = append(out, '\n')
			escBlank = append(escBlank, false)
			atLineStart = true
			tc = 0
			l++
			c = 1
			i += w
			continue
		case (r == ' ' || r == '\t') && atLineStart:
			// candidate for stripping: columns 1..qcol are stripped
			ntc := tc + 1
			if r == '\t' {
				ntc = (tc + 8) &^ 7
			}
			if ntc <= qcol {
				// fully inside the strip zone
				tc = ntc
				c++
				i += w
				continue
			}
			if r == '\t' && tc < qcol {
				// straddles the strip column
				ooc = "tab-straddles-strip-column"
			}
			atLineStart = false
			out = append(out, byte(r))
			escBlank = append(escBlank, false)
			tc = ntc
			c++
			i += w
			continue
		default:
			atLineStart = false
			b := raw[i : i+w]
			out = append(out, b...)
			for range []byte(b) {
				escBlank = append(escBlank, false)
			}
			c++
			i += w
		}
	}
	return string(out), nil, ooc
}

// Read parses text.
func Read(text string) Result {
	var res Result
	toks, lerr, ooc := tokens(text)
	res.OutOfClaim = ooc
	// Evaluate strings lazily during parsing since pattern mode depends on the keyword.
	p := &parser{toks: toks, lerr: lerr}
	forest, perr := p.parseAll()
	if p.ooc != "" && res.OutOfClaim == "" {
		res.OutOfClaim = p.ooc
	}
	if perr != nil {
		res.Reject = true
		res.RejectKind = perr.kind
		res.RLine, res.RCol = perr.line, perr.col
		return res
	}
	res.Forest = forest
	return res
}

type parser struct {
	toks []Tok
	i    int
	lerr *lexErr
	ooc  string
}

func (p *parser) peek() Tok {
	if p.i < len(p.toks) {
		return p.toks[p.i]
	}
	return Tok{K: KEOF}
}

func (p *parser) eofErr() *lexErr {
	if p.lerr != nil {
		return p.lerr
	}
	return &lexErr{"unexpected-eof", 0, 0}
}

func (p *parser) strval(t Tok, pattern bool) (string, *lexErr) {
	if !t.Double {
		return t.Text, nil
	}
	v, e, ooc := dq(t.raw, t.Line, t.Col, t.qcol, pattern)
	if ooc != "" && p.ooc == "" {
		p.ooc = ooc
	}
	return v, e
}

func (p *parser) parseAll() ([]*Stmt, *lexErr) {
	var out []*Stmt
	for {
		t := p.peek()
		if t.K == KEOF {
			if p.lerr != nil {
				return nil, p.lerr
			}
			return out, nil
		}
		if t.K == KRBrace {
			return nil, &lexErr{"unexpected-rbrace", t.Line, t.Col}
		}
		s, err := p.stmt()
		if err != nil {
			return nil, err
		}
		out = append(out, s)
	}
}

func (p *parser) stmt() (*Stmt, *lexErr) {
	t := p.peek()
	switch t.K {
	case KUnq:
	case KStr:
		// a quoted string where a keyword must stand; but first the string itself
		// may be lexically bad
		if _, e := p.strval(t, false); e != nil {
			return nil, e
		}
		return nil, &lexErr{"quoted-keyword", t.Line, t.Col}
	case KEOF:
		return nil, p.eofErr()
	default:
		return nil, &lexErr{"keyword-expected", t.Line, t.Col}
	}
	p.i++
	s := &Stmt{Keyword: t.Text, Line: t.Line, Col: t.Col}
	pattern := t.Text == "pattern"
	a := p.peek()
	switch a.K {
	case KUnq:
		p.i++
		s.HasArg = true
		s.Arg = a.Text
	case KStr:
		p.i++
		v, e := p.strval(a, pattern)
		if e != nil {
			return nil, e
		}
		s.HasArg = true
		s.Arg = v
		for {
			plus := p.peek()
			if plus.K != KUnq || plus.Text != "+" {
				break
			}
			if p.i+1 >= len(p.toks) && p.lerr != nil {
				// what stands behind the "+" could not be read as a token at all (a quote or
				// comment that is never closed): that is what is wrong with the text
				return nil, p.lerr
			}
			if p.i+1 >= len(p.toks) || p.toks[p.i+1].K != KStr {
				break
			}
			nt := p.toks[p.i+1]
			p.i += 2
			v, e := p.strval(nt, pattern)
			if e != nil {
				return nil, e
			}
			s.Arg += v
		}
	}
	e := p.peek()
	switch e.K {
	case KSemi:
		p.i++
		return s, nil
	case KLBrace:
		p.i++
		for {
			n := p.peek()
			if n.K == KRBrace {
				p.i++
				return s, nil
			}
			if n.K == KEOF {
				return nil, p.eofErr()
			}
			c, err := p.stmt()
			if err != nil {
				return nil, err
			}
			s.Sub = append(s.Sub, c)
		}
	case KEOF:
		return nil, p.eofErr()
	case KStr:
		if _, er := p.strval(e, false); er != nil {
			return nil, er
		}
		return nil, &lexErr{"expected-semi-or-lbrace", e.Line, e.Col}
	default:
		return nil, &lexErr{"expected-semi-or-lbrace", e.Line, e.Col}
	}
}
