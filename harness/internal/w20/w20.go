// Package w20 is the workload and monitor of C20 (indent writer).
package w20

import (
	"bufio"
	"errors"
	"fmt"
	"strconv"
	"strings"

	"github.com/openconfig/goyang/pkg/indent"
	"verif/internal/job"
)

// Ref renders text with prefix before every line and returns, for every output
// byte, the index of the caller byte it is (-1 for prefix bytes).
func Ref(prefix, text string) (string, []int) {
	if prefix == "" || text == "" {
		m := make([]int, len(text))
		for i := range m {
			m[i] = i
		}
		return text, m
	}
	var out []byte
	var m []int
	atStart := true
	for i := 0; i < len(text); i++ {
		if atStart {
			for j := 0; j < len(prefix); j++ {
				out = append(out, prefix[j])
				m = append(m, -1)
			}
			atStart = false
		}
		out = append(out, text[i])
		m = append(m, i)
		if text[i] == '\n' {
			atStart = true
		}
	}
	return string(out), m
}

// refMemo caches the last reference rendering (the large family asks for the same
// megabyte-sized rendering once per stop position).
var memoPrefix, memoText, memoWant string
var memoMap []int

func refMemo(prefix, text string) (string, []int) {
	if len(text) < 1024 {
		return Ref(prefix, text)
	}
	if prefix != memoPrefix || text != memoText {
		memoPrefix, memoText = prefix, text
		memoWant, memoMap = Ref(prefix, text)
	}
	return memoWant, memoMap
}

// limited is the instrumented underlying writer: it records every byte and
// stops after budget bytes.
type limited struct {
	got    []byte
	budget int
	calls  int
}

var errShort = errors.New("injected short write")

func (l *limited) Write(p []byte) (int, error) {
	l.calls++
	if len(p) <= l.budget {
		l.budget -= len(p)
		l.got = append(l.got, p...)
		return len(p), nil
	}
	n := l.budget
	l.got = append(l.got, p[:n]...)
	l.budget = 0
	return n, errShort
}

type Case struct {
	Prefix string   `json:"prefix"`
	Chunks []string `json:"chunks"`
	Budget int      `json:"budget"`
}

// Check runs one (prefix, chunking, budget) case and returns a violation class and detail, or "".
func Check(c Case) (class, detail string) {
	text := ""
	for _, ch := range c.Chunks {
		text += ch
	}
	want, m := refMemo(c.Prefix, text)
	u := &limited{budget: c.Budget}
	w := indent.NewWriter(u, c.Prefix)
	off := 0
	failed := false
	for _, ch := range c.Chunks {
		before := len(u.got)
		n, err := w.Write([]byte(ch))
		if err == nil {
			if n != len(ch) {
				return "success-count", fmt.Sprintf("Write(%q) returned %d, nil", ch, n)
			}
			off += len(ch)
			continue
		}
		failed = true
		truth := 0
		for k := before; k < len(u.got) && k < len(m); k++ {
			if m[k] >= off && m[k] < off+len(ch) {
				truth++
			}
		}
		if n < 0 || n > len(ch) {
			return "short-count-range", fmt.Sprintf("Write(%q) returned %d", ch, n)
		}
		if n != truth {
			return "short-count", fmt.Sprintf("Write(%q) returned %d, but %d of its bytes reached the underlying writer (received %q)", ch, n, truth, u.got)
		}
		break
	}
	if len(u.got) > len(want) || string(u.got) != want[:len(u.got)] {
		return "content", fmt.Sprintf("underlying received %q, reference %q", u.got, want)
	}
	if !failed && string(u.got) != want {
		return "content", fmt.Sprintf("underlying received %q, reference %q", u.got, want)
	}
	return "", ""
}

func texts(alpha string, maxLen int) []string {
	var out []string
	var gen func(cur string)
	gen = func(cur string) {
		out = append(out, cur)
		if len(cur) >= maxLen {
			return
		}
		for i := 0; i < len(alpha); i++ {
			gen(cur + alpha[i:i+1]) // one byte, whatever it is
		}
	}
	gen("")
	return out
}

// Enum enumerates all texts over the alphabet up to maxLen, all chunkings
// (with optional empty writes interleaved), all budgets, for each prefix.
func Enum(j *job.Job, s *job.Sink) {
	alpha := j.Params["alphabet"]
	if strings.HasPrefix(alpha, "\"") {
		// written as a Go string literal, for alphabets with bytes that do not survive JSON
		alpha, _ = strconv.Unquote(alpha)
	}
	maxLen, _ := strconv.Atoi(j.Params["maxlen"])
	// ">" and ">>" share nothing with the texts, "a", "ba" and "ab\n" are made of the
	// texts' own characters (a renderer that recognises its prefix by content is wrong)
	prefixes := []string{">", ">>", "\t\t", "ab\n", "", "a", "ba"}
	if !strings.HasPrefix(alpha, "a") {
		// an alphabet of unusual bytes (NUL, CR, 0xff): prefixes made of them as well
		prefixes = []string{">", ">>", "", alpha[:1], alpha[1:3], "--"}
	}
	all := texts(alpha, maxLen)
	own := 0
	for ti, text := range all {
		if ti%j.Shards != j.Shard {
			continue
		}
		if own++; own%16 == 1 {
			// (the per-case CPU clock of the driver restarts here)
			s.Current(int64(ti), map[string]any{"text": text})
		}
		for _, prefix := range prefixes {
			want, _ := Ref(prefix, text)
			// one-shot functions
			s.Count("oneshot", 2)
			if got := indent.String(prefix, text); got != want {
				s.Violation(int64(ti), j.CaseID(int64(ti)), "C20.oneshot", "string", fmt.Sprintf("String(%q,%q)=%q want %q", prefix, text, got, want), map[string]any{"prefix": prefix, "text": text}, nil)
			}
			if got := string(indent.Bytes([]byte(prefix), []byte(text))); got != want {
				s.Violation(int64(ti), j.CaseID(int64(ti)), "C20.oneshot", "bytes", fmt.Sprintf("Bytes(%q,%q)=%q want %q", prefix, text, got, want), map[string]any{"prefix": prefix, "text": text}, nil)
			}
			n := len(text)
			if n == 0 {
				continue
			}
			for mask := 0; mask < 1<<(n-1); mask++ {
				var chunks []string
				st := 0
				for i := 1; i < n; i++ {
					if mask&(1<<(i-1)) != 0 {
						chunks = append(chunks, text[st:i])
						st = i
					}
				}
				chunks = append(chunks, text[st:])
				variants := [][]string{chunks}
				if mask%7 == 3 { // a thinned set of chunkings also gets empty writes interleaved
					var withEmpty []string
					for _, c := range chunks {
						withEmpty = append(withEmpty, "", c)
					}
					variants = append(variants, withEmpty)
				}
				for _, v := range variants {
					for budget := 0; budget <= len(want); budget++ {
						c := Case{Prefix: prefix, Chunks: v, Budget: budget}
						s.Count("cases", 1)
						if len(v) > 1 && budget < len(want) {
							s.Count("nontrivial", 1)
						}
						if class, detail := Check(c); class != "" {
							partial := false
							s.Violation(int64(ti), j.CaseID(int64(ti)), "C20.writer", class, detail, c, map[string]any{"continued_line": partial})
						}
					}
				}
				if ti%997 == 0 && mask == 1 {
					s.Sample(3, Case{Prefix: prefix, Chunks: chunks, Budget: len(want) / 2})
				}
			}
		}
	}
}

// Large drives single and double Write calls with buffers around powers of two up to a
// megabyte (an implementation that segments big buffers internally must still account
// for every byte), with the underlying writer stopping at a spread of positions.
func Large(j *job.Job, s *job.Sink) {
	sizes := []int{255, 256, 257, 4095, 4096, 4097, 32767, 32768, 32769, 65535, 65536, 65537, 131071, 131072, 131073, 262145}
	if j.Tier == "thorough" {
		sizes = append(sizes, 1<<20-1, 1<<20, 1<<20+1, 1<<22+1)
	}
	lineLens := []int{0, 1, 7, 64, 1000, 70000} // 0 = no line break at all
	// (prefixes longer than any fixed small buffer, too: 16, 17, 40 and 300 bytes)
	prefixes := []string{">>", "\t", "a", "0123456789012345", "0123456789012345|", strings.Repeat("ab", 20), strings.Repeat("wxyz ", 60)}
	var idx int64
	for si, size := range sizes {
		if si%j.Shards != j.Shard {
			continue
		}
		for _, ll := range lineLens {
			buf := make([]byte, size)
			for i := range buf {
				buf[i] = 'a' + byte(i%3)
				if ll > 0 && i%(ll+1) == ll {
					buf[i] = '\n'
				}
			}
			text := string(buf)
			for _, prefix := range prefixes {
				want, _ := Ref(prefix, text)
				// budgets: ends, middle, and around every multiple of 4096 near a power of two
				budgets := map[int]bool{0: true, 1: true, len(want) / 2: true, len(want) - 1: true, len(want): true}
				for _, b := range []int{4096, 32768, 65536, 131072, 262144, 1 << 20} {
					for d := -2; d <= 2; d++ {
						if b+d >= 0 && b+d <= len(want) {
							budgets[b+d] = true
						}
					}
				}
				for _, split := range []int{0, 1, size / 2, size - 1} {
					chunks := []string{text}
					if split > 0 && split < size {
						chunks = []string{text[:split], text[split:]}
					}
					for b := range budgets {
						idx++
						c := Case{Prefix: prefix, Chunks: chunks, Budget: b}
						if idx%16 == 0 {
							s.Current(idx, map[string]any{"size": size, "line_length": ll, "prefix": prefix, "split": split, "budget": b})
						}
						s.Count("large_cases", 1)
						s.Count("nontrivial", 1)
						if class, detail := Check(c); class != "" {
							if len(detail) > 300 {
								detail = detail[:300]
							}
							s.Violation(idx, j.CaseID(idx), "C20.large", class, detail, map[string]any{"size": size, "line_length": ll, "prefix": prefix, "split": split, "budget": b}, nil)
						}
					}
				}
			}
		}
	}
}

// ---- stacked writers and out-of-contract underlying writers ----

// refW is the reference indenting writer as a state machine: a prefix before the first
// byte of every line, whoever delivers the bytes and in whatever pieces.
type refW struct {
	prefix  string
	atStart bool
	out     func([]byte)
}

func (w *refW) write(p []byte) {
	if w.prefix == "" {
		w.out(p)
		return
	}
	for _, b := range p {
		if w.atStart {
			w.out([]byte(w.prefix))
			w.atStart = false
		}
		w.out([]byte{b})
		if b == '\n' {
			w.atStart = true
		}
	}
}

type collect struct{ got []byte }

func (c *collect) Write(p []byte) (int, error) { c.got = append(c.got, p...); return len(p), nil }

// Stacked: an indenting writer on top of another one (as goyang's own tree printers
// do), writes going to either of them in any interleaving, also in the middle of a line.
// Each writer must keep to its own contract, so the bytes that reach the bottom are those
// of two stacked reference writers.
func Stacked(j *job.Job, s *job.Sink) {
	texts := []string{"a", "\n", "a\n", "ab", "\na"}
	pres := [][]string{nil, {"a"}, {"a\n"}, {"\n"}, {"ab", "\n"}}
	type op struct {
		child bool
		text  string
	}
	var choices []op
	for _, t := range texts {
		choices = append(choices, op{false, t}, op{true, t})
	}
	var idx int64
	for pi, p1 := range []string{">", "a", ""} {
		for qi, p2 := range []string{"..", ">", "a"} {
			for ri, pre := range pres {
				if (pi*15+qi*5+ri)%j.Shards != j.Shard {
					continue
				}
				var rec func(seq []op)
				rec = func(seq []op) {
					if len(seq) > 0 {
						idx++
						if idx%2048 == 0 {
							s.Current(idx, map[string]any{"parent_prefix": p1, "child_prefix": p2, "before_child": pre, "ops": fmt.Sprint(seq)})
						}
						s.Count("stacked_cases", 1)
						s.Count("nontrivial", 1)
						// library
						u := &collect{}
						parent := indent.NewWriter(u, p1)
						for _, t := range pre {
							parent.Write([]byte(t))
						}
						child := indent.NewWriter(parent, p2)
						// reference
						var want []byte
						rp := &refW{prefix: p1, atStart: true, out: func(b []byte) { want = append(want, b...) }}
						for _, t := range pre {
							rp.write([]byte(t))
						}
						rc := &refW{prefix: p2, atStart: true, out: rp.write}
						bad := ""
						for _, o := range seq {
							var n int
							var err error
							if o.child {
								n, err = child.Write([]byte(o.text))
								rc.write([]byte(o.text))
							} else {
								n, err = parent.Write([]byte(o.text))
								rp.write([]byte(o.text))
							}
							if err != nil || n != len(o.text) {
								bad = fmt.Sprintf("Write(%q) returned %d, %v", o.text, n, err)
							}
						}
						if bad == "" && string(u.got) != string(want) {
							bad = fmt.Sprintf("bottom writer received %q, two stacked reference writers give %q", u.got, want)
						}
						if bad != "" {
							s.Violation(idx, j.CaseID(idx), "C20.stacked", "stacked-content", fmt.Sprintf("parent prefix %q (after %q), child prefix %q, ops %v: %s", p1, pre, p2, seq, bad), map[string]any{"parent_prefix": p1, "child_prefix": p2, "before_child": pre, "ops": fmt.Sprint(seq)}, nil)
						}
					}
					if len(seq) == 4 {
						return
					}
					for _, c := range choices {
						rec(append(append([]op{}, seq...), c))
					}
				}
				rec(nil)
			}
		}
	}
	// short writes below two stacked writers: the bottom writer takes a given number of bytes
	// and fails; what the top writer reports is the number of its caller's bytes among them
	// (the prefixes of both levels are not the caller's), and the bottom holds exactly the
	// first bytes of the doubly indented text
	if j.Shard == 1%j.Shards {
		for _, p1 := range []string{"--", ">", "ab"} {
			for _, p2 := range []string{">", "..", "a"} {
				for _, first := range []string{"", "x", "x\n"} {
					for _, text := range []string{"aaa\na", "a\nb\nc", "\n\n", "ab\ncd\n", "a", "\na\n\nb", "l1\nl2\nl3\nl4\nl5\nl6\nl7\nl8\nl9\nl10\nl11\nl12\nl13\nl14\nl15\nl16\nl17"} {
						inner, im := Ref(p2, first+text)
						outer, om := Ref(p1, inner)
						// bytes of the first write are not this call's
						skipInner, _ := Ref(p2, first)
						skipOuter, _ := Ref(p1, skipInner)
						for budget := len(skipOuter); budget <= len(outer); budget++ {
							idx++
							s.Count("stacked_short_write_cases", 1)
							u := &limited{budget: budget}
							top := indent.NewWriter(indent.NewWriter(u, p1), p2)
							if first != "" {
								top.Write([]byte(first))
							}
							n, err := top.Write([]byte(text))
							want := 0
							for k := 0; k < budget && k < len(outer); k++ {
								if om[k] >= 0 && im[om[k]] >= len(first) {
									want++
								}
							}
							desc := map[string]any{"outer_prefix": p1, "inner_prefix": p2, "first": first, "text": text, "budget": budget}
							switch {
							case budget >= len(outer) && (err != nil || n != len(text)):
								s.Violation(idx, j.CaseID(idx), "C20.stacked", "stacked-short-count", fmt.Sprintf("prefixes %q/%q after %q: Write(%q) with room for everything returned %d, %v", p1, p2, first, text, n, err), desc, nil)
							case budget < len(outer) && (err == nil || n != want):
								s.Violation(idx, j.CaseID(idx), "C20.stacked", "stacked-short-count", fmt.Sprintf("prefixes %q/%q after %q: Write(%q) returned %d, %v when the bottom writer stopped after %d bytes (%q): %d of the caller's bytes are among them", p1, p2, first, text, n, err, budget, u.got, want), desc, nil)
							case string(u.got) != outer[:min(budget, len(outer))]:
								s.Violation(idx, j.CaseID(idx), "C20.stacked", "stacked-content", fmt.Sprintf("prefixes %q/%q after %q: the bottom writer holds %q, the doubly indented text begins %q", p1, p2, first, u.got, outer[:min(budget, len(outer))]), desc, nil)
							}
						}
					}
				}
			}
		}
	}
	// prefixes that a template engine or a regular expression would read something into
	// ($-references, escapes, percent verbs): to the indenter a prefix is bytes
	if j.Shard == 0 {
		for _, prefix := range []string{"$$ ", "$1> ", "${x}", "$", "$0", "\\1", "%s ", "%!", "\\n", "^", ".*", "$name_"} {
			for _, text := range []string{"x", "x\ny", "x\n", "\nx", "a$1\n$$b\n", "", "\n\n"} {
				idx++
				s.Count("template_prefix_cases", 1)
				want, _ := Ref(prefix, text)
				if got := indent.String(prefix, text); got != want {
					s.Violation(idx, j.CaseID(idx), "C20.oneshot", "string", fmt.Sprintf("String(%q,%q)=%q want %q", prefix, text, got, want), map[string]any{"prefix": prefix, "text": text}, nil)
				}
				if got := string(indent.Bytes([]byte(prefix), []byte(text))); got != want {
					s.Violation(idx, j.CaseID(idx), "C20.oneshot", "bytes", fmt.Sprintf("Bytes(%q,%q)=%q want %q", prefix, text, got, want), map[string]any{"prefix": prefix, "text": text}, nil)
				}
				for cut := 0; cut <= len(text); cut++ {
					var c collect
					w := indent.NewWriter(&c, prefix)
					n1, e1 := w.Write([]byte(text[:cut]))
					n2, e2 := w.Write([]byte(text[cut:]))
					if string(c.got) != want || n1 != cut || n2 != len(text)-cut || e1 != nil || e2 != nil {
						s.Violation(idx, j.CaseID(idx), "C20.writer", "content", fmt.Sprintf("prefix %q: Write(%q), Write(%q) gave %q (%d,%v %d,%v), one-shot rendering %q", prefix, text[:cut], text[cut:], c.got, n1, e1, n2, e2, want), map[string]any{"prefix": prefix, "text": text}, nil)
					}
				}
			}
		}
		// an underlying bufio.Writer that is already in its error state (an earlier Flush to a
		// full device failed) but still has room in its buffer: it accepts nothing, and the
		// indenting writer must say so
		for _, prefix := range []string{"-", ">>"} {
			for _, chunk := range []string{"k", "l\nm", "\n", "two\nlines\n"} {
				idx++
				s.Count("bufio_error_state_cases", 1)
				bw := bufio.NewWriterSize(&budget{left: 3}, 64)
				w := indent.NewWriter(bw, prefix)
				w.Write([]byte("0123456789"))
				bw.Flush() // fails after three bytes; the error sticks
				n, err := w.Write([]byte(chunk))
				if n != 0 || err == nil {
					s.Violation(idx, j.CaseID(idx), "C20.stacked", "short-count", fmt.Sprintf("prefix %q: Write(%q) over a bufio.Writer in its error state = %d, %v; nothing reached it", prefix, chunk, n, err), map[string]any{"prefix": prefix, "chunk": chunk}, nil)
				}
			}
		}
	}
	// an underlying writer that accepts only part of the output and returns the short count
	// without an error: the count handed to the caller is the number of its bytes that
	// arrived, and a count below the length of the argument comes with an error
	if j.Shard == 0 {
		for _, prefix := range []string{">", ">>", "ab"} {
			for _, first := range []string{"", "a", "a\n", "ab"} {
				for _, second := range []string{"c", "c\n", "cd\ne", "\n", "two\nlines\n"} {
					for limit := 0; limit <= len(second)+3*len(prefix); limit++ {
						for _, then := range []int{-1, 0, 1, 2, 5} {
							idx++
							s.Count("silent_short_write_cases", 1)
							u := &silentShort{limit: limit, then: then}
							w := indent.NewWriter(u, prefix)
							if first != "" {
								w.Write([]byte(first))
							}
							before := len(u.got)
							u.armed = true
							n, err := w.Write([]byte(second))
							// reference: the output for second, byte by byte, with the caller's bytes marked
							var out []byte
							var mine []bool
							atStart := first == "" || strings.HasSuffix(first, "\n")
							for _, b := range []byte(second) {
								if atStart {
									for range prefix {
										mine = append(mine, false)
									}
									out = append(out, prefix...)
									atStart = false
								}
								out = append(out, b)
								mine = append(mine, true)
								if b == '\n' {
									atStart = true
								}
							}
							arrived := len(u.got) - before
							want := 0
							for k := 0; k < arrived && k < len(mine); k++ {
								if mine[k] {
									want++
								}
							}
							cs := map[string]any{"prefix": prefix, "first": first, "second": second, "underlying_accepts": limit, "then_takes_and_fails": then}
							switch {
							case arrived >= len(out) && (n != len(second) || err != nil):
								s.Violation(idx, j.CaseID(idx), "C20.stacked", "full-write-misreported", fmt.Sprintf("prefix %q, after %q: Write(%q) = %d, %v although everything arrived", prefix, first, second, n, err), cs, nil)
							case arrived < len(out) && n != want:
								s.Violation(idx, j.CaseID(idx), "C20.stacked", "short-count", fmt.Sprintf("prefix %q, after %q: Write(%q) returned %d, %v; the underlying writer took %d of %d bytes without an error, %d of them the caller's", prefix, first, second, n, err, arrived, len(out), want), cs, nil)
							case arrived < len(out) && n < len(second) && err == nil:
								s.Violation(idx, j.CaseID(idx), "C20.stacked", "short-count-without-error", fmt.Sprintf("prefix %q, after %q: Write(%q) returned %d and no error", prefix, first, second, n), cs, nil)
							}
						}
					}
				}
			}
		}
	}
	// an underlying writer that breaks the io.Writer contract (negative or excessive count
	// with its error): whatever it says, the count handed to the caller stays within
	// [0, len(buf)]
	if j.Shard == 0 {
		for _, prefix := range []string{">", ">>", "a"} { // not "": NewWriter then hands back the underlying writer itself
			for _, first := range []string{"", "a", "a\n", "ab"} {
				for _, second := range []string{"c", "c\n", "cd\ne", "\n"} {
					for _, lie := range []int{-3, -1, 0, 1, 2, 1000} {
						idx++
						s.Count("out_of_contract_cases", 1)
						u := &liar{after: len(first) + len(prefix), n: lie}
						w := indent.NewWriter(u, prefix)
						if first != "" {
							w.Write([]byte(first))
						}
						u.armed = true
						n, err := w.Write([]byte(second))
						if err != nil && (n < 0 || n > len(second)) {
							s.Violation(idx, j.CaseID(idx), "C20.stacked", "short-count-range", fmt.Sprintf("prefix %q, after %q: Write(%q) returned %d when the underlying writer claimed %d", prefix, first, second, n, lie), map[string]any{"prefix": prefix, "first": first, "second": second, "underlying_claims": lie}, nil)
						}
					}
				}
			}
		}
	}
}

// budget accepts left bytes in all and fails from then on.
type budget struct{ left int }

func (b *budget) Write(p []byte) (int, error) {
	if len(p) <= b.left {
		b.left -= len(p)
		return len(p), nil
	}
	n := b.left
	b.left = 0
	return n, errShort
}

// silentShort takes only limit bytes of the first write it sees once armed and says so in
// its count, but returns no error.
type silentShort struct {
	limit int
	armed bool
	got   []byte
	// then >= 0: should the writer be offered more of the same chunk afterwards, it takes
	// that many bytes more and fails
	then   int
	failed bool
}

func (w *silentShort) Write(p []byte) (int, error) {
	if w.failed {
		k := w.then
		if k > len(p) {
			k = len(p)
		}
		w.then = 0
		w.got = append(w.got, p[:k]...)
		return k, errShort
	}
	if !w.armed {
		w.got = append(w.got, p...)
		return len(p), nil
	}
	w.armed = false
	if w.then >= 0 {
		w.failed = true
	}
	k := w.limit
	if k > len(p) {
		k = len(p)
	}
	w.got = append(w.got, p[:k]...)
	return k, nil
}

// liar fails the first write it sees once armed, claiming n bytes written.
type liar struct {
	after int
	armed bool
	n     int
}

func (l *liar) Write(p []byte) (int, error) {
	if !l.armed {
		return len(p), nil
	}
	return l.n, errShort
}
