// Package w20 is the workload and monitor of C20 (indent writer).
package w20

import (
	"errors"
	"fmt"
	"strconv"

	"github.com/openconfig/goyang/pkg/indent"
	"verif/internal/job"
)

// Ref renders text with prefix before every line and returns, for every output
// byte, the index of the caller byte it is (-1 for prefix bytes).
func Ref(prefix, text string) (string, []int) {
	if prefix == "" || text == "" {
		m := make([]int, len(text))
		for i := range m {
			m[i] = i
		}
		return text, m
	}
	var out []byte
	var m []int
	atStart := true
	for i := 0; i < len(text); i++ {
		if atStart {
			for j := 0; j < len(prefix); j++ {
				out = append(out, prefix[j])
				m = append(m, -1)
			}
			atStart = false
		}
		out = append(out, text[i])
		m = append(m, i)
		if text[i] == '\n' {
			atStart = true
		}
	}
	return string(out), m
}

// limited is the instrumented underlying writer: it records every byte and
// stops after budget bytes.
type limited struct {
	got    []byte
	budget int
	calls  int
}

var errShort = errors.New("injected short write")

func (l *limited) Write(p []byte) (int, error) {
	l.calls++
	if len(p) <= l.budget {
		l.budget -= len(p)
		l.got = append(l.got, p...)
		return len(p), nil
	}
	n := l.budget
	l.got = append(l.got, p[:n]...)
	l.budget = 0
	return n, errShort
}

type Case struct {
	Prefix string   `json:"prefix"`
	Chunks []string `json:"chunks"`
	Budget int      `json:"budget"`
}

// Check runs one (prefix, chunking, budget) case and returns a violation class and detail, or "".
func Check(c Case) (class, detail string) {
	text := ""
	for _, ch := range c.Chunks {
		text += ch
	}
	want, m := Ref(c.Prefix, text)
	u := &limited{budget: c.Budget}
	w := indent.NewWriter(u, c.Prefix)
	off := 0
	failed := false
	for _, ch := range c.Chunks {
		before := len(u.got)
		n, err := w.Write([]byte(ch))
		if err == nil {
			if n != len(ch) {
				return "success-count", fmt.Sprintf("Write(%q) returned %d, nil", ch, n)
			}
			off += len(ch)
			continue
		}
		failed = true
		truth := 0
		for k := before; k < len(u.got) && k < len(m); k++ {
			if m[k] >= off && m[k] < off+len(ch) {
				truth++
			}
		}
		if n < 0 || n > len(ch) {
			return "short-count-range", fmt.Sprintf("Write(%q) returned %d", ch, n)
		}
		if n != truth {
			return "short-count", fmt.Sprintf("Write(%q) returned %d, but %d of its bytes reached the underlying writer (received %q)", ch, n, truth, u.got)
		}
		break
	}
	if len(u.got) > len(want) || string(u.got) != want[:len(u.got)] {
		return "content", fmt.Sprintf("underlying received %q, reference %q", u.got, want)
	}
	if !failed && string(u.got) != want {
		return "content", fmt.Sprintf("underlying received %q, reference %q", u.got, want)
	}
	return "", ""
}

func texts(alpha string, maxLen int) []string {
	var out []string
	var gen func(cur string)
	gen = func(cur string) {
		out = append(out, cur)
		if len(cur) == maxLen {
			return
		}
		for i := 0; i < len(alpha); i++ {
			gen(cur + string(alpha[i]))
		}
	}
	gen("")
	return out
}

// Enum enumerates all texts over the alphabet up to maxLen, all chunkings
// (with optional empty writes interleaved), all budgets, for each prefix.
func Enum(j *job.Job, s *job.Sink) {
	alpha := j.Params["alphabet"]
	maxLen, _ := strconv.Atoi(j.Params["maxlen"])
	prefixes := []string{">", ">>", "\t\t", "ab\n", ""}
	all := texts(alpha, maxLen)
	for ti, text := range all {
		if ti%j.Shards != j.Shard {
			continue
		}
		if ti%512 == 0 {
			s.Current(int64(ti), map[string]any{"text": text})
		}
		for _, prefix := range prefixes {
			want, _ := Ref(prefix, text)
			// one-shot functions
			s.Count("oneshot", 2)
			if got := indent.String(prefix, text); got != want {
				s.Violation(int64(ti), j.CaseID(int64(ti)), "C20.oneshot", "string", fmt.Sprintf("String(%q,%q)=%q want %q", prefix, text, got, want), map[string]any{"prefix": prefix, "text": text}, nil)
			}
			if got := string(indent.Bytes([]byte(prefix), []byte(text))); got != want {
				s.Violation(int64(ti), j.CaseID(int64(ti)), "C20.oneshot", "bytes", fmt.Sprintf("Bytes(%q,%q)=%q want %q", prefix, text, got, want), map[string]any{"prefix": prefix, "text": text}, nil)
			}
			n := len(text)
			if n == 0 {
				continue
			}
			for mask := 0; mask < 1<<(n-1); mask++ {
				var chunks []string
				st := 0
				for i := 1; i < n; i++ {
					if mask&(1<<(i-1)) != 0 {
						chunks = append(chunks, text[st:i])
						st = i
					}
				}
				chunks = append(chunks, text[st:])
				variants := [][]string{chunks}
				if mask%7 == 3 { // a thinned set of chunkings also gets empty writes interleaved
					var withEmpty []string
					for _, c := range chunks {
						withEmpty = append(withEmpty, "", c)
					}
					variants = append(variants, withEmpty)
				}
				for _, v := range variants {
					for budget := 0; budget <= len(want); budget++ {
						c := Case{Prefix: prefix, Chunks: v, Budget: budget}
						s.Count("cases", 1)
						if len(v) > 1 && budget < len(want) {
							s.Count("nontrivial", 1)
						}
						if class, detail := Check(c); class != "" {
							partial := false
							s.Violation(int64(ti), j.CaseID(int64(ti)), "C20.writer", class, detail, c, map[string]any{"continued_line": partial})
						}
					}
				}
				if ti%997 == 0 && mask == 1 {
					s.Sample(3, Case{Prefix: prefix, Chunks: chunks, Budget: len(want) / 2})
				}
			}
		}
	}
}
