// Package hooklog records the events emitted by the tag-guarded hooks in
// goyang (yang.VerifSetSink) so that offline checkers can run over the trace of
// one execution. The recorder is safe for concurrent use and stamps every event
// with a global sequence number, so it cannot itself become a race.
package hooklog

import (
	"sort"
	"strconv"
	"strings"
	"sync"
	"sync/atomic"

	"github.com/openconfig/goyang/pkg/yang"
)

// An Event is one hook event.
type Event struct {
	Seq  uint64
	Name string
	KV   map[string]string
}

func (e Event) String() string {
	var ks []string
	for k := range e.KV {
		ks = append(ks, k)
	}
	sort.Strings(ks)
	s := e.Name
	for _, k := range ks {
		s += " " + k + "=" + e.KV[k]
	}
	return s
}

var seq uint64

// A Log collects events between Start and Stop.
type Log struct {
	mu  sync.Mutex
	evs []Event
}

// Start installs a fresh recorder as the sink of the hooks.
func Start() *Log {
	l := &Log{}
	yang.VerifSetSink(func(ev string, kv ...string) {
		e := Event{Seq: atomic.AddUint64(&seq, 1), Name: ev, KV: map[string]string{}}
		for i := 0; i+1 < len(kv); i += 2 {
			e.KV[kv[i]] = kv[i+1]
		}
		l.mu.Lock()
		l.evs = append(l.evs, e)
		l.mu.Unlock()
	})
	return l
}

// Stop removes the sink and returns the events in emission order.
func (l *Log) Stop() []Event {
	yang.VerifSetSink(nil)
	l.mu.Lock()
	defer l.mu.Unlock()
	out := append([]Event(nil), l.evs...)
	sort.Slice(out, func(i, j int) bool { return out[i].Seq < out[j].Seq })
	return out
}

// Collect runs f with a recorder installed.
func Collect(f func()) []Event {
	l := Start()
	defer yang.VerifSetSink(nil)
	f()
	return l.Stop()
}

// Pos parses "file:line:col" (the form of yang.Source) into its parts.
func Pos(s string) (file string, line, col int, ok bool) {
	p := strings.Split(s, ":")
	if len(p) < 3 {
		return "", 0, 0, false
	}
	l, e1 := strconv.Atoi(p[len(p)-2])
	c, e2 := strconv.Atoi(p[len(p)-1])
	if e1 != nil || e2 != nil {
		return "", 0, 0, false
	}
	return strings.Join(p[:len(p)-2], ":"), l, c, true
}

// An AugmentFinding is a violation of the augment trace specification.
type AugmentFinding struct {
	Class  string
	Detail string
}

// CheckAugments is the offline checker of the augment trace of one Process run.
// Specification, per augment statement (identified by its source position and
// path): the trace is skip* [found [merge]] - at most one merge, a merge only
// directly after a found of the same statement, and nothing after a merge.
// With clean == true (Process returned no error) every augment statement seen
// must end in exactly one merge, and the number of statements seen must be
// want (the number of augment statements in the input; < 0 = unknown).
// It returns the findings and the number of statements seen.
func CheckAugments(evs []Event, clean bool, want int) (out []AugmentFinding, seen int, merges int) {
	type st struct {
		skips, founds, merges int
		last                  string
		afterMerge            int
	}
	m := map[string]*st{}
	var order []string
	for _, e := range evs {
		if !strings.HasPrefix(e.Name, "augment.") {
			continue
		}
		k := e.KV["augment"] + " " + e.KV["path"]
		s := m[k]
		if s == nil {
			s = &st{}
			m[k] = s
			order = append(order, k)
		}
		if s.merges > 0 {
			s.afterMerge++
		}
		switch e.Name {
		case "augment.skip":
			s.skips++
		case "augment.found":
			s.founds++
		case "augment.merge":
			if s.last != "augment.found" {
				out = append(out, AugmentFinding{"trace-merge-without-found", k})
			}
			s.merges++
			merges++
		}
		s.last = e.Name
	}
	for _, k := range order {
		s := m[k]
		switch {
		case s.merges > 1:
			out = append(out, AugmentFinding{"trace-applied-twice", k + ": merged " + strconv.Itoa(s.merges) + " times"})
		case s.afterMerge > 0:
			out = append(out, AugmentFinding{"trace-retried-after-merge", k})
		case clean && s.merges == 0:
			out = append(out, AugmentFinding{"trace-never-applied", k + ": no merge although Process reported no error (skips=" + strconv.Itoa(s.skips) + ", founds=" + strconv.Itoa(s.founds) + ")"})
		}
	}
	if clean && want >= 0 && len(order) != want {
		out = append(out, AugmentFinding{"trace-augment-count", "trace shows " + strconv.Itoa(len(order)) + " augment statements, the input has " + strconv.Itoa(want)})
	}
	return out, len(order), merges
}

// A DeviateFinding is a violation of the deviate trace specification.
type DeviateFinding struct {
	Class  string
	Detail string
}

// CheckDeviates is the offline checker of the deviate trace: within one
// application of one deviation (a maximal run of events with the same path),
// the positions of the deviate statements must be strictly increasing, i.e.
// they are applied in written order, each once.
func CheckDeviates(evs []Event) (out []DeviateFinding, applied int) {
	lastPath, lastFile := "", ""
	lastLine, lastCol := 0, 0
	for _, e := range evs {
		if e.Name != "deviate.apply" {
			continue
		}
		applied++
		f, l, c, ok := Pos(e.KV["deviate"])
		if !ok {
			continue
		}
		if e.KV["path"] == lastPath && f == lastFile {
			if l < lastLine || (l == lastLine && c <= lastCol) {
				out = append(out, DeviateFinding{"trace-deviate-out-of-order", e.KV["path"] + ": deviate at " + e.KV["deviate"] + " applied after the one at " + lastFile + ":" + strconv.Itoa(lastLine) + ":" + strconv.Itoa(lastCol)})
			}
		}
		lastPath, lastFile, lastLine, lastCol = e.KV["path"], f, l, c
	}
	return out, applied
}
