// Package evid writes /verif/evidence/<id>.json in the shape of EVIDENCE.schema.json.
package evid

import (
	"encoding/json"
	"os"
	"path/filepath"
)

type Evidence struct {
	PropertyID  string         `json:"property_id"`
	Tier        string         `json:"tier"`
	Seed        int64          `json:"seed"`
	Level       string         `json:"level"`
	Coverage    map[string]any `json:"coverage"`
	Assumptions []string       `json:"assumptions,omitempty"`
	WallS       float64        `json:"wall_s"`
	Violations  int            `json:"violations"`
}

func Write(dir string, e *Evidence) error {
	if err := os.MkdirAll(dir, 0o755); err != nil {
		return err
	}
	b, err := json.MarshalIndent(e, "", " ")
	if err != nil {
		return err
	}
	tmp := filepath.Join(dir, e.PropertyID+".json.tmp")
	if err := os.WriteFile(tmp, append(b, '\n'), 0o644); err != nil {
		return err
	}
	return os.Rename(tmp, filepath.Join(dir, e.PropertyID+".json"))
}
