// Package w08 is the workload and monitor of C08 (deviations): a reference
// application of RFC 7950 7.20.3 in written order, a frame check against the run
// without the deviating module, and expected-error classes.
package w08

import (
	"fmt"
	"math"
	"os"
	"path/filepath"
	"sort"
	"strings"

	"github.com/openconfig/goyang/pkg/yang"
	"verif/internal/hooklog"
	"verif/internal/job"
	"verif/internal/prng"
)

type rec struct {
	kind      string // leaf leaf-list list container
	name      string
	config    string // "", "true", "false"
	defaults  []string
	mandatory string
	min, max  *uint64
	typ       string
	units     string // units statement in the source
	unitsSeen string // what Entry.Units shows: goyang fills it from deviations only (a leaf's own units live on its AST node and type)
	removed   bool
	ordUser   bool   // ordered-by user (lists and leaf-lists): no deviation names it, so it never changes
	parent    string // "", "box" (container), "lst" (list), "ca" (case of choice ch), "g" (grouping used by u1 and u2), "aug"/"late" (added by module a's augments)
}

// path returns the absolute entry path of the (first) instance of r.
func (r *rec) path() string {
	switch r.parent {
	case "box":
		return "/b/box/" + r.name
	case "lst":
		return "/b/lst/" + r.name
	case "ca":
		return "/b/ch/ca/" + r.name
	case "g":
		return "/b/u1/" + r.name
	case "aug": // added to container box by an augment of module a
		return "/b/box/" + r.name
	case "late": // added by an augment whose path runs through the implicit case of a shorthand choice member
		return "/b/lch/alt/alt/" + r.name
	}
	return "/b/" + r.name
}

// devPath returns the prefixed schema path used by a deviation to name r.
func (r *rec) devPath() string {
	p := ""
	steps := strings.Split(strings.TrimPrefix(r.path(), "/b/"), "/")
	for i, st := range steps {
		if i == len(steps)-1 && (r.parent == "aug" || r.parent == "late") {
			p += "/aa:" + st // the node belongs to the augmenting module
		} else {
			p += "/bb:" + st
		}
	}
	return p
}

func (r *rec) clone() *rec {
	c := *r
	c.defaults = append([]string{}, r.defaults...)
	if r.min != nil {
		v := *r.min
		c.min = &v
	}
	if r.max != nil {
		v := *r.max
		c.max = &v
	}
	return &c
}

func u(v uint64) *uint64 { return &v }

func printRec(b *strings.Builder, r *rec, ind string) {
	fmt.Fprintf(b, "%s%s %s {", ind, r.kind, r.name)
	if r.kind == "list" {
		fmt.Fprintf(b, " key k; leaf k { type string; }")
	}
	if r.typ != "" {
		t := r.typ
		if t == "tdd" && (r.parent == "aug" || r.parent == "late") {
			t = "bb:tdd" // written in module a, the typedef lives in b
		}
		fmt.Fprintf(b, " type %s;", t)
	}
	if r.units != "" {
		fmt.Fprintf(b, " units %q;", r.units)
	}
	if r.config != "" {
		fmt.Fprintf(b, " config %s;", r.config)
	}
	for _, d := range r.defaults {
		fmt.Fprintf(b, " default %q;", d)
	}
	if r.mandatory != "" {
		fmt.Fprintf(b, " mandatory %s;", r.mandatory)
	}
	if r.min != nil {
		fmt.Fprintf(b, " min-elements %d;", *r.min)
	}
	if r.max != nil {
		fmt.Fprintf(b, " max-elements %d;", *r.max)
	}
	if r.ordUser {
		fmt.Fprintf(b, " ordered-by user;")
	}
}

// Run generates base modules and deviating modules.
func Run(j *job.Job, s *job.Sink) {
	repsN := 16
	if j.Tier == "thorough" {
		repsN = 48
	}
	reps := &repsN
	singleKind := j.Params["singlekind"] == "1"
	single := &singleKind
	for c := j.Start; c < j.Start+j.Count; c++ {
		r := prng.For(j.Seed, "C08", j.Family, c)
		reported := map[string]bool{}
		var caseDesc map[string]string
		mixedKinds := false
		bad := func(class, f string, a ...interface{}) {
			if reported[class] {
				return
			}
			reported[class] = true
			s.Violation(c, j.CaseID(c), "C08.deviation", class, fmt.Sprintf(f, a...), caseDesc, map[string]any{"several_deviate_kinds_in_one_deviation": mixedKinds})
		}
		// base
		var recs []*rec
		nn := 2 + r.Intn(5)
		for i := 0; i < nn; i++ {
			kinds := []string{"leaf", "leaf", "leaf-list", "list", "container"}
			k := kinds[r.Intn(len(kinds))]
			rc := &rec{kind: k, name: fmt.Sprintf("n%d", i)}
			if r.Intn(3) == 0 {
				rc.config = []string{"true", "false"}[r.Intn(2)]
			}
			if (k == "list" || k == "leaf-list") && r.Intn(2) == 0 {
				rc.ordUser = true
			}
			switch k {
			case "leaf":
				rc.typ = "string"
				if r.Intn(2) == 0 {
					rc.defaults = []string{fmt.Sprintf("d%d", i)}
				} else if r.Intn(3) == 0 {
					rc.mandatory = []string{"true", "false"}[r.Intn(2)]
				} else if r.Intn(2) == 0 {
					rc.typ = "tdd" // a typedef that carries a default: the leaf itself has none
				}
			case "leaf-list":
				rc.typ = "string"
				for q := r.Intn(4); q > 0; q-- {
					rc.defaults = append(rc.defaults, fmt.Sprintf("d%d_%d", i, q))
				}
				if len(rc.defaults) == 0 && r.Intn(2) == 0 {
					rc.min = u(uint64(1 + r.Intn(3)))
				}
				if r.Intn(2) == 0 {
					rc.max = u(uint64(5 + r.Intn(3)))
				}
			case "list":
				if r.Intn(2) == 0 {
					rc.min = u(uint64(1 + r.Intn(3)))
				}
				if r.Intn(2) == 0 {
					rc.max = u(uint64(5 + r.Intn(3)))
				}
			}
			if (k == "leaf" || k == "leaf-list") && r.Intn(3) == 0 {
				rc.units = fmt.Sprintf("u%d", i)
			}
			if r.Intn(2) == 0 {
				rc.parent = []string{"box", "box", "lst", "ca", "g", "g", "aug", "late"}[r.Intn(8)]
			}
			recs = append(recs, rc)
		}
		var base strings.Builder
		base.WriteString("module b { yang-version 1.1; namespace \"urn:b\"; prefix b;\n  typedef tdu { type uint16; }\n  typedef tdd { type string; default \"tdv\"; }\n")
		section := func(parent, open, close string) {
			base.WriteString(open)
			for _, rc := range recs {
				if rc.parent == parent {
					printRec(&base, rc, "    ")
					base.WriteString(" }\n")
				}
			}
			base.WriteString(close)
		}
		section("", "", "")
		section("box", "  container box {\n", "  }\n")
		section("lst", "  list lst { key k; leaf k { type string; }\n", "  }\n")
		section("ca", "  choice ch { case ca { leaf filler { type string; }\n", "  } }\n")
		section("g", "  grouping g { leaf gfiller { type string; }\n", "  }\n  container u1 { uses g; }\n  container u2 { uses g; }\n")
		base.WriteString("  choice lch { container alt { leaf altfill { type string; } } }\n")
		// a choice with a default case; now and then a deviation removes exactly that case (the
		// choice itself is no target: it stays as it is, default statement and all)
		base.WriteString("  choice dch { default dc1; case dc1 { leaf dl1 { type string; } } case dc2 { leaf dl2 { type string; } } leaf dc3 { type string; } }\n")
		base.WriteString("}\n")
		// module a augments b: into container box, and - through the implicit case of the
		// shorthand member alt, which only the last augment pass can resolve - into lch/alt
		var augText strings.Builder
		augText.WriteString("module a { yang-version 1.1; namespace \"urn:a\"; prefix a; import b { prefix bb; }\n  augment /bb:box {\n    leaf augfill { type string; }\n")
		for _, rc := range recs {
			if rc.parent == "aug" {
				printRec(&augText, rc, "    ")
				augText.WriteString(" }\n")
			}
		}
		augText.WriteString("  }\n  augment /bb:lch/bb:alt/bb:alt {\n    leaf latefill { type string; }\n")
		for _, rc := range recs {
			if rc.parent == "late" {
				printRec(&augText, rc, "    ")
				augText.WriteString(" }\n")
			}
		}
		augText.WriteString("  }\n}\n")
		// deviations
		exp := map[string]*rec{}
		for _, rc := range recs {
			exp[rc.name] = rc.clone()
		}
		// one or two deviating modules; every deviation goes into one of them
		ndm := 1 + r.Intn(2)
		texts := make([]strings.Builder, ndm)
		for mi := range texts {
			nm := "d"
			if mi > 0 {
				nm = "e"
			}
			fmt.Fprintf(&texts[mi], "module %s { yang-version 1.1; namespace \"urn:%s\"; prefix %s; import b { prefix bb; } import a { prefix aa; }\n", nm, nm, nm)
		}
		devText := &texts[0]
		allDev := func() string {
			out := ""
			for mi := range texts {
				out += texts[mi].String()
			}
			return out
		}
		var removeLater []string
		ignoreNS := r.Intn(6) == 0 // run with the ignore-not-supported option
		wantErr := ""
		nd := 1 + r.Intn(3)
		targeted := map[string]bool{}
		for i := 0; i < nd; i++ {
			devText = &texts[r.Intn(ndm)]
			// error-side templates the base generator cannot produce
			if wantErr == "" && r.Intn(14) == 0 {
				t := recs[r.Intn(len(recs))]
				switch tpl := r.Intn(4); {
				case tpl == 0:
					steps := strings.Split(t.devPath(), "/")
					if t.parent == "ca" && r.Intn(2) == 0 {
						// a path that leaves out the choice and the case the node lives in (a
						// data-tree path, not a schema path): the schema has no such node
						steps = []string{"", "bb:" + t.name}
					} else if t.parent == "late" && r.Intn(2) == 0 {
						steps = append([]string{""}, steps[len(steps)-2:]...) // /bb:alt/aa:<name>: without choice and case
					} else {
						steps[1+r.Intn(len(steps)-1)] = "bb:zz9"
					}
					// what the deviation would do does not matter: its target is missing (not-supported
					// alone is the interesting one under the ignore option, which must not make the
					// missing target disappear too)
					body := []string{"deviate replace { config true; }", "deviate not-supported;", "deviate add { default q; }"}[r.Intn(3)]
					fmt.Fprintf(devText, "  deviation %s { %s }\n", strings.Join(steps, "/"), body)
					wantErr = "missing-target"
					continue
				case tpl == 1 && !targeted[t.name]:
					targeted[t.name] = true
					fmt.Fprintf(devText, "  deviation %s { deviate frobnicate; }\n", t.devPath())
					wantErr = "unknown-deviate-kind"
					continue
				case tpl == 2 && !targeted[t.name] && (t.kind == "leaf" || t.kind == "leaf-list"):
					targeted[t.name] = true
					fmt.Fprintf(devText, "  deviation %s { deviate replace { type nosuchtype; } }\n", t.devPath())
					wantErr = "unresolvable-type"
					continue
				case tpl == 3 && !targeted[t.name] && (t.kind == "leaf" || t.kind == "leaf-list"):
					targeted[t.name] = true
					// replacement types that do not resolve, most of them in ways that still
					// leave a half-built type behind (a known base with a bad restriction, a
					// union with one good member ...)
					bt := []string{"bb:nosuchtype", "union { type string; type nosuchmember; }", "decimal64", "uint8 { range \"1..300\"; }", "string { length \"5..2\"; }", "identityref",
						"enumeration { enum a { value 1; } enum b { value 1; } }", "bits { bit p { position 4294967296; } }", "int8 { range \"a..b\"; }", "union { type uint8 { range \"0..256\"; } }", "d:alsonot"}[r.Intn(11)]
					fmt.Fprintf(devText, "  deviation %s { deviate replace { type %s%s } }\n", t.devPath(), bt, map[bool]string{true: "", false: ";"}[strings.HasSuffix(bt, "}")])
					wantErr = "unresolvable-type"
					continue
				}
			}
			t := recs[r.Intn(len(recs))]
			if targeted[t.name] {
				continue
			}
			targeted[t.name] = true
			path := t.devPath()
			again := ""
			errBefore := wantErr
			// layout of the deviate statements: one per line at one indentation; the first on the
			// line of the opening brace; indentation that shrinks from one to the next (a later
			// statement then stands in a smaller column than an earlier one); all on one line.
			// Written order is the order of the text, whatever the columns.
			layout := r.Intn(4)
			ind := func(j int) string {
				switch {
				case layout == 1 && j == 0, layout == 3:
					return " "
				case layout == 2:
					return strings.Repeat(" ", 14-4*j)
				}
				return "    "
			}
			eol := "\n"
			if layout == 3 {
				eol = ""
			}
			if layout == 1 || layout == 3 {
				fmt.Fprintf(devText, "  deviation %s {", path)
			} else {
				fmt.Fprintf(devText, "  deviation %s {\n", path)
			}
			cur := exp[t.name]
			k := 1 + r.Intn(3)
			firstKind := ""
			for j := 0; j < k; j++ {
				kinds := []string{"add", "replace", "delete", "not-supported"}
				dk := kinds[r.Intn(len(kinds))]
				if *single && firstKind != "" {
					dk = firstKind
				}
				firstKind = dk
				if dk == "not-supported" {
					if j > 0 || r.Intn(3) > 0 {
						dk = "replace"
					}
				}
				if dk == "not-supported" {
					fmt.Fprintf(devText, "%sdeviate not-supported;%s", ind(j), map[bool]string{true: "\n", false: eol}[layout == 1 && j == 0 || eol != ""])
					if !ignoreNS {
						cur.removed = true
						if wantErr == "" && r.Intn(3) == 0 {
							// the same module deviates the node once more further down: by then it
							// is gone (deviations are applied in written order), so this one has
							// no target
							again = fmt.Sprintf("  deviation %s { %s }\n", path, []string{"deviate replace { config true; }", "deviate not-supported;", "deviate add { default again; }"}[r.Intn(3)])
							wantErr = "missing-target"
						}
					}
					break
				}
				fmt.Fprintf(devText, "%sdeviate %s {", ind(j), dk)
				// pick one or two props
				props := []string{"config", "default", "mandatory", "min", "max", "units", "type"}
				r.Shuffle(len(props), func(a, b int) { props[a], props[b] = props[b], props[a] })
				np := 1 + r.Intn(2)
				for _, p := range props[:np] {
					switch p {
					case "config":
						switch dk {
						case "add":
							if cur.config != "" {
								continue // grey: add existing
							}
							v := []string{"true", "false"}[r.Intn(2)]
							fmt.Fprintf(devText, " config %s;", v)
							cur.config = v
						case "replace":
							v := []string{"true", "false"}[r.Intn(2)]
							fmt.Fprintf(devText, " config %s;", v)
							cur.config = v
						case "delete":
							if cur.config == "" {
								continue
							}
							fmt.Fprintf(devText, " config %s;", cur.config)
							cur.config = ""
						}
					case "default":
						if cur.kind != "leaf" && cur.kind != "leaf-list" {
							continue
						}
						v := fmt.Sprintf("x%d%d", i, j)
						if r.Intn(8) == 0 {
							v = "" // the empty string is a default value like any other
						}
						switch dk {
						case "add":
							fmt.Fprintf(devText, " default %q;", v)
							if cur.kind == "leaf-list" {
								cur.defaults = append(cur.defaults, v)
							} else if len(cur.defaults) > 0 {
								if wantErr == "" {
									wantErr = "add-default-exists"
								}
							} else {
								cur.defaults = []string{v}
							}
						case "replace":
							if len(cur.defaults) == 0 {
								continue // grey
							}
							fmt.Fprintf(devText, " default %q;", v)
							cur.defaults = []string{v}
						case "delete":
							if cur.kind == "leaf-list" {
								continue // unsupported in lib, documented
							}
							switch {
							case len(cur.defaults) == 0:
								fmt.Fprintf(devText, " default %q;", v)
								if wantErr == "" {
									wantErr = "delete-default-absent"
								}
							case r.Intn(3) == 0:
								if v == cur.defaults[0] {
									v = "zzdifferent"
								}
								fmt.Fprintf(devText, " default %q;", v)
								if wantErr == "" {
									wantErr = "delete-default-different"
								}
							default:
								fmt.Fprintf(devText, " default %q;", cur.defaults[0])
								cur.defaults = nil
							}
						}
					case "mandatory":
						if cur.kind != "leaf" {
							continue
						}
						switch dk {
						case "add":
							if cur.mandatory != "" {
								continue
							}
							v := []string{"true", "false"}[r.Intn(2)]
							fmt.Fprintf(devText, " mandatory %s;", v)
							cur.mandatory = v
						case "replace":
							if cur.mandatory == "" {
								continue
							}
							v := []string{"true", "false"}[r.Intn(2)]
							fmt.Fprintf(devText, " mandatory %s;", v)
							cur.mandatory = v
						case "delete":
							if cur.mandatory == "" {
								continue
							}
							fmt.Fprintf(devText, " mandatory %s;", cur.mandatory)
							cur.mandatory = ""
						}
					case "units":
						if cur.kind != "leaf" && cur.kind != "leaf-list" {
							continue
						}
						v := fmt.Sprintf("w%d%d", i, j)
						if dk == "replace" && r.Intn(3) == 0 {
							v = "" // replacing the units by the empty string empties them
						}
						switch {
						case dk == "add" && cur.units == "", dk == "replace" && cur.units != "":
							fmt.Fprintf(devText, " units %q;", v)
							cur.units, cur.unitsSeen = v, v
						}
					case "type":
						if cur.kind != "leaf" && cur.kind != "leaf-list" && dk != "delete" && r.Intn(6) == 0 {
							// a type for a node that is neither leaf nor leaf-list cannot be applied
							fmt.Fprintf(devText, " type uint8;")
							if wantErr == "" {
								wantErr = "type-non-leaf"
							}
							continue
						}
						if (cur.kind != "leaf" && cur.kind != "leaf-list") || dk != "replace" {
							continue
						}
						v := []string{"uint8", "int32", "boolean", "string", "tdu"}[r.Intn(5)]
						fmt.Fprintf(devText, " type %s;", map[string]string{"tdu": "bb:tdu"}[v]+map[bool]string{true: "", false: v}[v == "tdu"])
						cur.typ = v
					case "min", "max":
						isList := cur.kind == "list" || cur.kind == "leaf-list"
						if !isList && r.Intn(5) > 0 {
							continue // element bounds on a non-list are an error class of their own; keep them a minority
						}
						kw := p + "-elements"
						ptr := &cur.min
						if p == "max" {
							ptr = &cur.max
						}
						switch dk {
						case "add":
							if *ptr != nil {
								continue
							}
							v := uint64(2 + r.Intn(3))
							fmt.Fprintf(devText, " %s %d;", kw, v)
							if !isList {
								if wantErr == "" {
									wantErr = "bounds-non-list"
								}
							} else {
								*ptr = u(v)
							}
						case "replace":
							if isList && *ptr == nil {
								continue
							}
							v := uint64(2 + r.Intn(3))
							fmt.Fprintf(devText, " %s %d;", kw, v)
							if !isList {
								if wantErr == "" {
									wantErr = "bounds-non-list"
								}
							} else {
								*ptr = u(v)
							}
						case "delete":
							if !isList {
								fmt.Fprintf(devText, " %s 3;", kw)
								if wantErr == "" {
									wantErr = "bounds-non-list"
								}
								continue
							}
							if *ptr == nil && r.Intn(4) == 0 && wantErr == "" {
								// absent, and the value given is the one the bound has when it is not
								// stated (recorded finding c08-delete-of-an-unstated-bound-by-its-default)
								fmt.Fprintf(devText, " %s %s;", kw, map[string]string{"min": "0", "max": "unbounded"}[p])
								wantErr = "delete-bound-absent-default-valued"
							} else if *ptr == nil {
								fmt.Fprintf(devText, " %s 4;", kw) // absent and different
								if wantErr == "" {
									wantErr = "delete-bound-absent"
								}
							} else if r.Intn(3) == 0 {
								fmt.Fprintf(devText, " %s %d;", kw, **ptr+10)
								if wantErr == "" {
									wantErr = "delete-bound-different"
								}
							} else {
								fmt.Fprintf(devText, " %s %d;", kw, **ptr)
								*ptr = nil
							}
						}
					}
				}
				devText.WriteString(" }" + eol)
			}
			if layout == 3 {
				devText.WriteString("\n")
			}
			// A deviate of this deviation cannot be applied, and the node it names is removed
			// afterwards - by the same deviation, by a later one of the same module, or by
			// the last deviating module. The error is to be reported all the same (a seeded
			// change kept such errors on the node, where they went away with it).
			if errBefore == "" && wantErr != "" && wantErr != "missing-target" && !cur.removed && r.Intn(2) == 0 {
				switch r.Intn(3) {
				case 0:
					devText.WriteString("    deviate not-supported;\n")
				case 1:
					again = fmt.Sprintf("  deviation %s { deviate not-supported; }\n", path)
				default:
					defer0 := fmt.Sprintf("  deviation %s { deviate not-supported; }\n", path)
					removeLater = append(removeLater, defer0)
				}
				s.Count("inapplicable_deviates_on_a_node_removed_afterwards", 1)
			}
			devText.WriteString("  }\n")
			if again != "" {
				devText.WriteString(again)
				again = ""
			}
		}
		for _, rl := range removeLater {
			texts[ndm-1].WriteString(rl)
		}
		dropDefaultCase := ""
		if r.Intn(6) == 0 {
			dropDefaultCase = []string{"/b/dch/dc1", "/b/dch/dc2", "/b/dch/dc3"}[r.Intn(3)]
			texts[ndm-1].WriteString("  deviation " + strings.ReplaceAll(strings.TrimPrefix(dropDefaultCase, "/b"), "/", "/bb:") + " { deviate not-supported; }\n")
			s.Count("cases_with_a_case_of_a_choice_removed", 1)
		}
		for mi := range texts {
			texts[mi].WriteString("}\n")
		}
		// One case in five loads a second, older revision of the first deviating module with
		// the same deviations: a module's deviations take effect once, however many
		// revisions of it are loaded.
		olderRev := ""
		if r.Intn(5) == 0 {
			cur := texts[0].String()
			olderRev = strings.Replace(cur, "prefix d;", "prefix d; revision 2019-01-01;", 1)
			texts[0].Reset()
			texts[0].WriteString(strings.Replace(cur, "prefix d;", "prefix d; revision 2021-01-01;", 1))
		}

		// One case in four keeps the deviations of module d in a submodule: included by the
		// module itself, or only by another submodule of it, or by both. Deviations count
		// wherever they are written.
		var subTexts [][2]string
		if olderRev == "" && r.Intn(4) == 0 {
			full := texts[0].String()
			nl := strings.Index(full, "\n")
			header, body := full[:nl+1], strings.TrimSuffix(full[nl+1:], "}\n")
			sub := func(name, inc, body string) [2]string {
				return [2]string{name + ".yang", fmt.Sprintf("submodule %s { yang-version 1.1; belongs-to d { prefix d; } import b { prefix bb; } import a { prefix aa; } %s\n%s}\n", name, inc, body)}
			}
			incl := "  include ds1;\n"
			switch r.Intn(3) {
			case 0:
				subTexts = append(subTexts, sub("ds1", "", body))
			case 1:
				subTexts = append(subTexts, sub("ds1", "include ds2;", ""), sub("ds2", "", body))
			default:
				incl += "  include ds2;\n"
				subTexts = append(subTexts, sub("ds1", "include ds2;", ""), sub("ds2", "", body))
			}
			texts[0].Reset()
			texts[0].WriteString(header + incl + "}\n")
			r.Shuffle(len(subTexts), func(a, b int) { subTexts[a], subTexts[b] = subTexts[b], subTexts[a] })
			s.Count("cases_with_deviations_in_a_submodule", 1)
		}
		// Half of those pin the submodules by revision-date and load a newer revision of one of
		// them beside them, which nothing includes: its deviation is not in force.
		var rogue [2]string
		rogueFirst := false
		if len(subTexts) > 0 && dropDefaultCase != "/b/dch/dc2" && r.Intn(2) == 0 {
			pin := func(t string) string {
				t = strings.ReplaceAll(t, "include ds1;", "include ds1 { revision-date 2020-01-01; }")
				return strings.ReplaceAll(t, "include ds2;", "include ds2 { revision-date 2020-01-01; }")
			}
			for i := range subTexts {
				subTexts[i][1] = strings.Replace(pin(subTexts[i][1]), "\n", " revision 2020-01-01;\n", 1)
			}
			d0 := pin(texts[0].String())
			texts[0].Reset()
			texts[0].WriteString(d0)
			name := strings.TrimSuffix(subTexts[r.Intn(len(subTexts))][0], ".yang")
			rogue = [2]string{name + "@2031-01-01.yang", fmt.Sprintf("submodule %s { yang-version 1.1; belongs-to d { prefix d; } import b { prefix bb; } revision 2031-01-01;\n  deviation /bb:dch/bb:dc2/bb:dl2 { deviate replace { type uint8; } }\n}\n", name)}
			rogueFirst = r.Intn(2) == 0
			s.Count("cases_with_a_newer_submodule_revision_that_nothing_includes", 1)
		}
		allDev = func() string {
			out := ""
			for mi := range texts {
				out += texts[mi].String()
			}
			for _, st := range subTexts {
				out += st[1]
			}
			return out + rogue[1]
		}
		caseDesc = map[string]string{"b.yang": base.String(), "a.yang": augText.String(), "d.yang+e.yang": allDev(), "d@2019-01-01.yang": olderRev, "ignore_not_supported_option": fmt.Sprint(ignoreNS)}
		for _, blk := range strings.Split(allDev(), "deviation ")[1:] {
			kinds := map[string]bool{}
			for _, k := range []string{"deviate add", "deviate replace", "deviate delete", "deviate not-supported"} {
				if strings.Contains(blk, k) {
					kinds[k] = true
				}
			}
			if len(kinds) > 1 {
				mixedKinds = true
			}
		}
		s.Current(c, caseDesc)
		s.Count("cases", 1)
		if strings.Count(allDev(), "deviate ") >= 2 {
			s.Count("nontrivial", 1)
		}
		var traceFindings []hooklog.DeviateFinding
		traceApplied := 0
		// Half of the cases that keep deviations in submodules load from files: the modules are
		// read by name, the submodules are fetched by the processing run itself when it links
		// the include statements. Their deviations count like all others.
		// (Not with the unincluded newer revision: a pinned include whose revision is not
		// loaded yet binds to whatever revision is, which is the open C18 finding.)
		fromDisk := len(subTexts) > 0 && r.Intn(2) == 0 && rogue[0] == ""
		if fromDisk {
			s.Count("cases_loaded_from_files_with_fetched_submodules", 1)
		}
		run := func(withDev bool) (*yang.Modules, []error) {
			ms := yang.NewModules()
			ms.ParseOptions.DeviateOptions.IgnoreDeviateNotSupported = ignoreNS
			if withDev && fromDisk {
				dir := fmt.Sprintf("c08disk-%d", c)
				os.MkdirAll(dir, 0o755)
				defer os.RemoveAll(dir)
				files := [][2]string{{"b.yang", base.String()}, {"a.yang", augText.String()}}
				for mi := range texts {
					files = append(files, [2]string{[]string{"d.yang", "e.yang"}[mi], texts[mi].String()})
				}
				for _, f := range files {
					os.WriteFile(filepath.Join(dir, f[0]), []byte(f[1]), 0o644)
				}
				for _, st := range subTexts {
					os.WriteFile(filepath.Join(dir, st[0]), []byte(st[1]), 0o644)
				}
				ms.AddPath(dir)
				if rogue[0] != "" && rogueFirst {
					if err := ms.Parse(rogue[1], rogue[0]); err != nil {
						return ms, []error{err}
					}
				}
				for _, f := range files {
					if err := ms.Read(filepath.Join(dir, f[0])); err != nil {
						return ms, []error{err}
					}
				}
				if rogue[0] != "" && !rogueFirst {
					if err := ms.Parse(rogue[1], rogue[0]); err != nil {
						return ms, []error{err}
					}
				}
				var errs []error
				evs := hooklog.Collect(func() { errs = ms.Process() })
				tf, n := hooklog.CheckDeviates(evs)
				traceFindings = append(traceFindings, tf...)
				traceApplied += n
				return ms, errs
			}
			if err := ms.Parse(base.String(), "b.yang"); err != nil {
				panic(err)
			}
			if err := ms.Parse(augText.String(), "a.yang"); err != nil {
				panic(err)
			}
			if withDev {
				for mi := range texts {
					if err := ms.Parse(texts[mi].String(), []string{"d.yang", "e.yang"}[mi]); err != nil {
						return ms, []error{err}
					}
				}
				if olderRev != "" {
					if err := ms.Parse(olderRev, "d@2019-01-01.yang"); err != nil {
						return ms, []error{err}
					}
				}
				if rogue[0] != "" && rogueFirst {
					if err := ms.Parse(rogue[1], rogue[0]); err != nil {
						return ms, []error{err}
					}
				}
				for _, st := range subTexts {
					if err := ms.Parse(st[1], st[0]); err != nil {
						return ms, []error{err}
					}
				}
				if rogue[0] != "" && !rogueFirst {
					if err := ms.Parse(rogue[1], rogue[0]); err != nil {
						return ms, []error{err}
					}
				}
			}
			var errs []error
			evs := hooklog.Collect(func() { errs = ms.Process() })
			if withDev {
				// offline checker over the deviate trace: written order, each once
				tf, n := hooklog.CheckDeviates(evs)
				traceFindings = append(traceFindings, tf...)
				traceApplied += n
			}
			return ms, errs
		}
		observe := func(ms *yang.Modules) map[string]string {
			out := map[string]string{}
			root := yang.ToEntry(ms.Modules["b"])
			var walk func(e *yang.Entry)
			walk = func(e *yang.Entry) {
				la := ""
				if e.ListAttr != nil {
					la = fmt.Sprintf("min=%d max=%d user=%v", e.ListAttr.MinElements, e.ListAttr.MaxElements, e.ListAttr.OrderedByUser)
				}
				ty := ""
				if e.Type != nil {
					ty = e.Type.Name
				}
				dv := ""
				if e.Kind == yang.LeafEntry && e.ListAttr == nil && e.Type != nil {
					dv = fmt.Sprintf(" defvals=%q", e.DefaultValues())
				}
				out[e.Path()] = fmt.Sprintf("cfg=%v def=%q mand=%v units=%q type=%s %s", e.Config, e.Default, e.Mandatory, e.Units, ty, la) + dv
				var ks []string
				for k := range e.Dir {
					ks = append(ks, k)
				}
				sort.Strings(ks)
				for _, k := range ks {
					walk(e.Dir[k])
				}
			}
			walk(root)
			return out
		}
		expect := func(rc *rec) string {
			cfg := "unset"
			if rc.config != "" {
				cfg = rc.config
			}
			mand := "unset"
			if rc.mandatory != "" {
				mand = rc.mandatory
			}
			la := ""
			if rc.kind == "list" || rc.kind == "leaf-list" {
				mn, mx := uint64(0), uint64(math.MaxUint64)
				if rc.min != nil {
					mn = *rc.min
				}
				if rc.max != nil {
					mx = *rc.max
				}
				la = fmt.Sprintf("min=%d max=%d user=%v", mn, mx, rc.ordUser)
			}
			d := rc.defaults
			if d == nil {
				d = []string{}
			}
			dv := ""
			if rc.kind == "leaf" {
				// what DefaultValues gives: the leaf's own default, else that of its type unless
				// the leaf is mandatory (as it stands after the deviations)
				vals := []string{}
				switch {
				case len(rc.defaults) > 0:
					vals = rc.defaults
				case rc.typ == "tdd" && rc.mandatory != "true":
					vals = []string{"tdv"}
				}
				if len(vals) == 0 {
					dv = " defvals=[]"
				} else {
					dv = fmt.Sprintf(" defvals=%q", vals)
				}
			}
			return fmt.Sprintf("cfg=%v def=%q mand=%v units=%q type=%s %s", cfg, d, mand, rc.unitsSeen, rc.typ, la) + dv
		}
		ms0, errs0 := run(false)
		if len(errs0) > 0 {
			bad("base-error", "%v", errs0)
			continue
		}
		before := observe(ms0)
		// sanity of the harness itself: the reference record of every node equals what the
		// library shows for the undeviated base (otherwise the monitor would blame goyang
		// for a mistake of the generator)
		for _, rc := range recs {
			if got := before[rc.path()]; got != expect(rc) {
				bad("harness-base-mismatch", "%s: lib %s, generator %s", rc.path(), got, expect(rc))
			}
		}
		targetPath := map[string]*rec{}
		for _, rc := range recs {
			if targeted[rc.name] {
				targetPath[rc.path()] = rc
			}
		}
		verdicts := map[string]int{}
		for rep := 0; rep < *reps; rep++ {
			ms1, errs1 := run(true)
			if wantErr != "" {
				if len(errs1) == 0 {
					bad("missing-error:"+wantErr, "\n%s%s", base.String(), allDev())
					verdicts["noerr"]++
					break
				}
				verdicts["err"]++
				continue
			}
			if len(errs1) > 0 {
				verdicts["err"]++
				if rep == *reps-1 || len(verdicts) > 1 {
					bad("unexpected-error", "%v\n%s%s", errs1[0], base.String(), allDev())
					break
				}
				continue
			}
			verdicts["ok"]++
			after := observe(ms1)
			mism := false
			// targets
			removedUnder := []string{}
			if dropDefaultCase != "" && !ignoreNS {
				removedUnder = append(removedUnder, dropDefaultCase)
				if _, present := after[dropDefaultCase]; present {
					bad("not-removed", "%s", dropDefaultCase)
					mism = true
				}
			}
			for tp, rc := range targetPath {
				want := expect(exp[rc.name])
				got, present := after[tp]
				switch {
				case exp[rc.name].removed:
					removedUnder = append(removedUnder, tp)
					if present {
						bad("not-removed", "%s", tp)
						mism = true
					}
				case !present:
					bad("missing-node", "%s", tp)
					mism = true
				case got != want:
					bad("target-value", "%s: lib %s want %s\n%s", tp, got, want, allDev())
					mism = true
				}
			}
			// frame: everything that is not a target (or inside a removed target) is as
			// in the run without the deviating modules, and nothing appeared
			under := func(p string) bool {
				for _, r := range removedUnder {
					if p == r || strings.HasPrefix(p, r+"/") {
						return true
					}
				}
				return false
			}
			for p, v := range before {
				if targetPath[p] != nil || under(p) {
					continue
				}
				if got, ok := after[p]; !ok {
					bad("frame-node-lost", "%s vanished although no deviation names it\n%s", p, allDev())
					mism = true
				} else if got != v {
					bad("frame", "%s: before %s after %s\n%s", p, v, got, allDev())
					mism = true
				}
			}
			for p := range after {
				if _, ok := before[p]; !ok {
					bad("frame-node-appeared", "%s", p)
					mism = true
				}
			}
			s.Count("frame_nodes_compared", int64(len(before)))
			if mism {
				break
			}
		}
		for _, f := range traceFindings {
			bad(f.Class, "%s\n%s", f.Detail, allDev())
		}
		s.Count("trace_deviate_applications", int64(traceApplied))
		if ignoreNS {
			s.Count("cases_with_ignore_not_supported_option", 1)
		}
		if ndm > 1 {
			s.Count("cases_with_two_deviating_modules", 1)
		}
		if olderRev != "" {
			s.Count("cases_with_two_revisions_of_a_deviating_module", 1)
		}
		if len(verdicts) > 1 {
			bad("verdict-unstable", "%v\n%s", verdicts, allDev())
		}
		if wantErr != "" {
			s.Count("expected_error_cases", 1)
			s.Count("expected:"+wantErr, 1)
		} else {
			s.Count("value_and_frame_cases", 1)
		}
		if c%2000 == 0 {
			s.Sample(1, caseDesc)
		}
	}
}
