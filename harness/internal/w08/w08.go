// Package w08 is the workload and monitor of C08 (deviations): a reference
// application of RFC 7950 7.20.3 in written order, a frame check against the run
// without the deviating module, and expected-error classes.
package w08

import (
	"fmt"
	"math"
	"sort"
	"strings"

	"github.com/openconfig/goyang/pkg/yang"
	"verif/internal/job"
	"verif/internal/prng"
)

type rec struct {
	kind      string // leaf leaf-list list container
	name      string
	config    string // "", "true", "false"
	defaults  []string
	mandatory string
	min, max  *uint64
	typ       string
	removed   bool
	parent    string // "" or container name
}

func (r *rec) clone() *rec {
	c := *r
	c.defaults = append([]string{}, r.defaults...)
	if r.min != nil {
		v := *r.min
		c.min = &v
	}
	if r.max != nil {
		v := *r.max
		c.max = &v
	}
	return &c
}

type deviate struct {
	kind      string // add replace delete not-supported
	config    string
	def       string
	hasDef    bool
	mandatory string
	min, max  *uint64
	typ       string
}

type deviation struct {
	target *rec
	devs   []*deviate
}

func u(v uint64) *uint64 { return &v }

func printRec(b *strings.Builder, r *rec, ind string) {
	fmt.Fprintf(b, "%s%s %s {", ind, r.kind, r.name)
	if r.kind == "list" {
		fmt.Fprintf(b, " key k; leaf k { type string; }")
	}
	if r.typ != "" {
		fmt.Fprintf(b, " type %s;", r.typ)
	}
	if r.config != "" {
		fmt.Fprintf(b, " config %s;", r.config)
	}
	for _, d := range r.defaults {
		fmt.Fprintf(b, " default %q;", d)
	}
	if r.mandatory != "" {
		fmt.Fprintf(b, " mandatory %s;", r.mandatory)
	}
	if r.min != nil {
		fmt.Fprintf(b, " min-elements %d;", *r.min)
	}
	if r.max != nil {
		fmt.Fprintf(b, " max-elements %d;", *r.max)
	}
}

// Run generates base modules and deviating modules.
func Run(j *job.Job, s *job.Sink) {
	repsN := 16
	if j.Tier == "thorough" {
		repsN = 48
	}
	reps := &repsN
	singleKind := j.Params["singlekind"] == "1"
	single := &singleKind
	for c := j.Start; c < j.Start+j.Count; c++ {
		r := prng.For(j.Seed, "C08", j.Family, c)
		reported := map[string]bool{}
		var caseDesc map[string]string
		mixedKinds := false
		bad := func(class, f string, a ...interface{}) {
			if reported[class] {
				return
			}
			reported[class] = true
			s.Violation(c, j.CaseID(c), "C08.deviation", class, fmt.Sprintf(f, a...), caseDesc, map[string]any{"several_deviate_kinds_in_one_deviation": mixedKinds})
		}
		// base
		var recs []*rec
		nn := 2 + r.Intn(5)
		for i := 0; i < nn; i++ {
			kinds := []string{"leaf", "leaf", "leaf-list", "list", "container"}
			k := kinds[r.Intn(len(kinds))]
			rc := &rec{kind: k, name: fmt.Sprintf("n%d", i)}
			if r.Intn(3) == 0 {
				rc.config = []string{"true", "false"}[r.Intn(2)]
			}
			switch k {
			case "leaf":
				rc.typ = "string"
				if r.Intn(2) == 0 {
					rc.defaults = []string{fmt.Sprintf("d%d", i)}
				} else if r.Intn(3) == 0 {
					rc.mandatory = []string{"true", "false"}[r.Intn(2)]
				}
			case "leaf-list":
				rc.typ = "string"
				for q := r.Intn(4); q > 0; q-- {
					rc.defaults = append(rc.defaults, fmt.Sprintf("d%d_%d", i, q))
				}
				if len(rc.defaults) == 0 && r.Intn(2) == 0 {
					rc.min = u(uint64(1 + r.Intn(3)))
				}
				if r.Intn(2) == 0 {
					rc.max = u(uint64(5 + r.Intn(3)))
				}
			case "list":
				if r.Intn(2) == 0 {
					rc.min = u(uint64(1 + r.Intn(3)))
				}
				if r.Intn(2) == 0 {
					rc.max = u(uint64(5 + r.Intn(3)))
				}
			}
			if r.Intn(3) == 0 {
				rc.parent = "box"
			}
			recs = append(recs, rc)
		}
		var base strings.Builder
		base.WriteString("module b { yang-version 1.1; namespace \"urn:b\"; prefix b;\n")
		for _, rc := range recs {
			if rc.parent == "" {
				printRec(&base, rc, "  ")
				base.WriteString(" }\n")
			}
		}
		base.WriteString("  container box {\n")
		for _, rc := range recs {
			if rc.parent != "" {
				printRec(&base, rc, "    ")
				base.WriteString(" }\n")
			}
		}
		base.WriteString("  }\n}\n")
		// deviations
		exp := map[string]*rec{}
		for _, rc := range recs {
			exp[rc.name] = rc.clone()
		}
		var devText strings.Builder
		devText.WriteString("module d { yang-version 1.1; namespace \"urn:d\"; prefix d; import b { prefix bb; }\n")
		wantErr := ""
		nd := 1 + r.Intn(3)
		targeted := map[string]bool{}
		for i := 0; i < nd; i++ {
			t := recs[r.Intn(len(recs))]
			if targeted[t.name] {
				continue
			}
			targeted[t.name] = true
			path := "/bb:" + t.name
			if t.parent != "" {
				path = "/bb:box/bb:" + t.name
			}
			fmt.Fprintf(&devText, "  deviation %s {\n", path)
			cur := exp[t.name]
			k := 1 + r.Intn(3)
			firstKind := ""
			for j := 0; j < k; j++ {
				kinds := []string{"add", "replace", "delete", "not-supported"}
				dk := kinds[r.Intn(len(kinds))]
				if *single && firstKind != "" {
					dk = firstKind
				}
				firstKind = dk
				if dk == "not-supported" {
					if j > 0 || r.Intn(3) > 0 {
						dk = "replace"
					}
				}
				if dk == "not-supported" {
					fmt.Fprintf(&devText, "    deviate not-supported;\n")
					cur.removed = true
					break
				}
				fmt.Fprintf(&devText, "    deviate %s {", dk)
				// pick one or two props
				props := []string{"config", "default", "mandatory", "min", "max"}
				r.Shuffle(len(props), func(a, b int) { props[a], props[b] = props[b], props[a] })
				np := 1 + r.Intn(2)
				for _, p := range props[:np] {
					switch p {
					case "config":
						switch dk {
						case "add":
							if cur.config != "" {
								continue // grey: add existing
							}
							v := []string{"true", "false"}[r.Intn(2)]
							fmt.Fprintf(&devText, " config %s;", v)
							cur.config = v
						case "replace":
							v := []string{"true", "false"}[r.Intn(2)]
							fmt.Fprintf(&devText, " config %s;", v)
							cur.config = v
						case "delete":
							if cur.config == "" {
								continue
							}
							fmt.Fprintf(&devText, " config %s;", cur.config)
							cur.config = ""
						}
					case "default":
						if cur.kind != "leaf" && cur.kind != "leaf-list" {
							continue
						}
						v := fmt.Sprintf("x%d%d", i, j)
						switch dk {
						case "add":
							fmt.Fprintf(&devText, " default %q;", v)
							if cur.kind == "leaf-list" {
								cur.defaults = append(cur.defaults, v)
							} else if len(cur.defaults) > 0 {
								if wantErr == "" {
									wantErr = "add-default-exists"
								}
							} else {
								cur.defaults = []string{v}
							}
						case "replace":
							if len(cur.defaults) == 0 {
								continue // grey
							}
							fmt.Fprintf(&devText, " default %q;", v)
							cur.defaults = []string{v}
						case "delete":
							if cur.kind == "leaf-list" {
								continue // unsupported in lib, documented
							}
							switch {
							case len(cur.defaults) == 0:
								fmt.Fprintf(&devText, " default %q;", v)
								if wantErr == "" {
									wantErr = "delete-default-absent"
								}
							case r.Intn(3) == 0:
								fmt.Fprintf(&devText, " default %q;", v)
								if wantErr == "" {
									wantErr = "delete-default-different"
								}
							default:
								fmt.Fprintf(&devText, " default %q;", cur.defaults[0])
								cur.defaults = nil
							}
						}
					case "mandatory":
						if cur.kind != "leaf" {
							continue
						}
						switch dk {
						case "add":
							if cur.mandatory != "" {
								continue
							}
							v := []string{"true", "false"}[r.Intn(2)]
							fmt.Fprintf(&devText, " mandatory %s;", v)
							cur.mandatory = v
						case "replace":
							if cur.mandatory == "" {
								continue
							}
							v := []string{"true", "false"}[r.Intn(2)]
							fmt.Fprintf(&devText, " mandatory %s;", v)
							cur.mandatory = v
						case "delete":
							if cur.mandatory == "" {
								continue
							}
							fmt.Fprintf(&devText, " mandatory %s;", cur.mandatory)
							cur.mandatory = ""
						}
					case "min", "max":
						isList := cur.kind == "list" || cur.kind == "leaf-list"
						kw := p + "-elements"
						ptr := &cur.min
						if p == "max" {
							ptr = &cur.max
						}
						switch dk {
						case "add":
							if *ptr != nil {
								continue
							}
							v := uint64(2 + r.Intn(3))
							fmt.Fprintf(&devText, " %s %d;", kw, v)
							if !isList {
								if wantErr == "" {
									wantErr = "bounds-non-list"
								}
							} else {
								*ptr = u(v)
							}
						case "replace":
							if isList && *ptr == nil {
								continue
							}
							v := uint64(2 + r.Intn(3))
							fmt.Fprintf(&devText, " %s %d;", kw, v)
							if !isList {
								if wantErr == "" {
									wantErr = "bounds-non-list"
								}
							} else {
								*ptr = u(v)
							}
						case "delete":
							if !isList {
								fmt.Fprintf(&devText, " %s 3;", kw)
								if wantErr == "" {
									wantErr = "bounds-non-list"
								}
								continue
							}
							if *ptr == nil {
								fmt.Fprintf(&devText, " %s 4;", kw) // absent and different
								if wantErr == "" {
									wantErr = "delete-bound-absent"
								}
							} else if r.Intn(3) == 0 {
								fmt.Fprintf(&devText, " %s %d;", kw, **ptr+10)
								if wantErr == "" {
									wantErr = "delete-bound-different"
								}
							} else {
								fmt.Fprintf(&devText, " %s %d;", kw, **ptr)
								*ptr = nil
							}
						}
					}
				}
				devText.WriteString(" }\n")
			}
			devText.WriteString("  }\n")
		}
		devText.WriteString("}\n")

		caseDesc = map[string]string{"b.yang": base.String(), "d.yang": devText.String()}
		for _, blk := range strings.Split(devText.String(), "deviation ")[1:] {
			kinds := map[string]bool{}
			for _, k := range []string{"deviate add", "deviate replace", "deviate delete", "deviate not-supported"} {
				if strings.Contains(blk, k) {
					kinds[k] = true
				}
			}
			if len(kinds) > 1 {
				mixedKinds = true
			}
		}
		s.Current(c, caseDesc)
		s.Count("cases", 1)
		if strings.Count(devText.String(), "deviate ") >= 2 {
			s.Count("nontrivial", 1)
		}
		run := func(withDev bool) (*yang.Modules, []error) {
			ms := yang.NewModules()
			if err := ms.Parse(base.String(), "b.yang"); err != nil {
				panic(err)
			}
			if withDev {
				if err := ms.Parse(devText.String(), "d.yang"); err != nil {
					return ms, []error{err}
				}
			}
			return ms, ms.Process()
		}
		observe := func(ms *yang.Modules) map[string]string {
			out := map[string]string{}
			root := yang.ToEntry(ms.Modules["b"])
			var walk func(e *yang.Entry)
			walk = func(e *yang.Entry) {
				la := ""
				if e.ListAttr != nil {
					la = fmt.Sprintf("min=%d max=%d", e.ListAttr.MinElements, e.ListAttr.MaxElements)
				}
				out[e.Name] = fmt.Sprintf("cfg=%v def=%q mand=%v %s", e.Config, e.Default, e.Mandatory, la)
				var ks []string
				for k := range e.Dir {
					ks = append(ks, k)
				}
				sort.Strings(ks)
				for _, k := range ks {
					walk(e.Dir[k])
				}
			}
			walk(root)
			return out
		}
		expect := func(rc *rec) string {
			cfg := "unset"
			if rc.config != "" {
				cfg = rc.config
			}
			mand := "unset"
			if rc.mandatory != "" {
				mand = rc.mandatory
			}
			la := ""
			if rc.kind == "list" || rc.kind == "leaf-list" {
				mn, mx := uint64(0), uint64(math.MaxUint64)
				if rc.min != nil {
					mn = *rc.min
				}
				if rc.max != nil {
					mx = *rc.max
				}
				la = fmt.Sprintf("min=%d max=%d", mn, mx)
			}
			d := rc.defaults
			if d == nil {
				d = []string{}
			}
			return fmt.Sprintf("cfg=%v def=%q mand=%v %s", cfg, d, mand, la)
		}
		ms0, errs0 := run(false)
		if len(errs0) > 0 {
			bad("base-error", "%v", errs0)
			continue
		}
		before := observe(ms0)
		verdicts := map[string]int{}
		for rep := 0; rep < *reps; rep++ {
			ms1, errs1 := run(true)
			if wantErr != "" {
				if len(errs1) == 0 {
					bad("missing-error:"+wantErr, "\n%s%s", base.String(), devText.String())
					verdicts["noerr"]++
					break
				}
				verdicts["err"]++
				continue
			}
			if len(errs1) > 0 {
				verdicts["err"]++
				if rep == *reps-1 || len(verdicts) > 1 {
					bad("unexpected-error", "%v\n%s%s", errs1[0], base.String(), devText.String())
					break
				}
				continue
			}
			verdicts["ok"]++
			after := observe(ms1)
			mism := false
			for _, rc := range recs {
				want := expect(exp[rc.name])
				got, present := after[rc.name]
				switch {
				case exp[rc.name].removed:
					if present {
						bad("not-removed", "%s", rc.name)
						mism = true
					}
				case !present:
					bad("missing-node", "%s", rc.name)
					mism = true
				case !targeted[rc.name]:
					if got != before[rc.name] {
						bad("frame", "%s: before %s after %s", rc.name, before[rc.name], got)
						mism = true
					}
				case got != want:
					bad("target-value", "%s: lib %s want %s\n%s", rc.name, got, want, devText.String())
					mism = true
				}
			}
			if mism {
				break
			}
		}
		if len(verdicts) > 1 {
			bad("verdict-unstable", "%v\n%s", verdicts, devText.String())
		}
		if wantErr != "" {
			s.Count("expected_error_cases", 1)
			s.Count("expected:"+wantErr, 1)
		} else {
			s.Count("value_and_frame_cases", 1)
		}
		if c%2000 == 0 {
			s.Sample(1, caseDesc)
		}
	}
}
