// Package w09 holds the long-chain workload of C09: derivation chains of typedefs from a
// handful to tens of thousands of links, declared base first, most derived first or shuffled,
// in one module or alternating between two. The leaf at the end must carry the base kind and,
// nearest definition winning, the units and default, and all patterns along the chain.
package w09

import (
	"fmt"
	"strings"

	"github.com/openconfig/goyang/pkg/yang"
	"verif/internal/job"
	"verif/internal/prng"
)

// Run generates chains.
func Run(j *job.Job, s *job.Sink) {
	for c := j.Start; c < j.Start+j.Count; c++ {
		r := prng.For(j.Seed, "C09", "longchains", c)
		n := []int{3, 17, 120, 1500, 12001, 30000}[int(c)%6]
		if j.Tier != "thorough" && n > 12001 {
			n = 9000 + r.Intn(4000)
		}
		order := []string{"base-first", "derived-first", "shuffled"}[r.Intn(3)]
		two := r.Intn(3) == 0 // links alternate between two modules that import each other
		base := []string{"string", "int32", "uint8", "decimal64"}[r.Intn(4)]
		// which links say something: units and default at a few places, a pattern now and then
		type link struct {
			units, def, pattern string
		}
		links := make([]link, n)
		wantUnits, wantDef := "", ""
		var wantPat []string
		for k := 0; k < n; k++ {
			if r.Intn(n/3+1) == 0 {
				links[k].units = fmt.Sprintf("u%d", k)
			}
			if r.Intn(n/3+1) == 0 {
				links[k].def = map[string]string{"string": fmt.Sprintf("d%d", k), "int32": fmt.Sprint(k % 100), "uint8": fmt.Sprint(k % 100), "decimal64": fmt.Sprintf("%d.5", k%100)}[base]
			}
			if base == "string" && r.Intn(n/4+1) == 0 {
				links[k].pattern = fmt.Sprintf("[a-z]*%d?", k)
			}
		}
		// link 0 is the one written on the built-in type, link n-1 the most derived
		for k := 0; k < n; k++ {
			if links[k].units != "" {
				wantUnits = links[k].units
			}
			if links[k].def != "" {
				wantDef = links[k].def
			}
			if links[k].pattern != "" {
				wantPat = append(wantPat, links[k].pattern)
			}
		}
		home := func(k int) int {
			if two {
				return k % 2
			}
			return 0
		}
		var body [2][]string
		for k := 0; k < n; k++ {
			var t string
			if k == 0 {
				t = base
				if base == "decimal64" {
					t += " { fraction-digits 1; }"
				}
			} else {
				t = fmt.Sprintf("t%d", k-1)
				if home(k) != home(k-1) {
					t = []string{"la", "lb"}[home(k-1)] + ":" + t
				} else if r.Intn(4) == 0 {
					t = []string{"la", "lb"}[home(k)] + ":" + t
				}
			}
			if links[k].pattern != "" {
				t += fmt.Sprintf(" { pattern %q; }", links[k].pattern)
			}
			if !strings.HasSuffix(t, "}") {
				t += ";"
			}
			st := fmt.Sprintf("  typedef t%d { type %s", k, t)
			if links[k].units != "" {
				st += fmt.Sprintf(" units %q;", links[k].units)
			}
			if links[k].def != "" {
				st += fmt.Sprintf(" default %q;", links[k].def)
			}
			body[home(k)] = append(body[home(k)], st+" }\n")
		}
		for h := range body {
			switch order {
			case "derived-first":
				for a, b := 0, len(body[h])-1; a < b; a, b = a+1, b-1 {
					body[h][a], body[h][b] = body[h][b], body[h][a]
				}
			case "shuffled":
				r.Shuffle(len(body[h]), func(a, b int) { body[h][a], body[h][b] = body[h][b], body[h][a] })
			}
		}
		leafHome := home(n - 1)
		texts := [2]string{}
		for h := 0; h < 2; h++ {
			name := []string{"la", "lb"}[h]
			other := []string{"lb", "la"}[h]
			imp := ""
			if two {
				imp = fmt.Sprintf("  import %s { prefix %s; }\n", other, other)
			}
			leaf := ""
			if h == leafHome {
				leaf = fmt.Sprintf("  leaf end { type t%d; }\n  container c { leaf-list ends { type %s:t%d; } }\n", n-1, name, n-1)
			}
			texts[h] = fmt.Sprintf("module %s {\n  namespace \"urn:%s\";\n  prefix %s;\n%s%s%s}\n", name, name, name, imp, strings.Join(body[h], ""), leaf)
		}
		cs := map[string]any{"links": n, "order": order, "two_modules": two, "base": base, "text_head": texts[0][:min(len(texts[0]), 600)]}
		s.Current(c, cs)
		s.Count("chains", 1)
		s.Count("nontrivial", 1)
		s.Count("links", int64(n))
		s.Count("order:"+order, 1)
		bad := func(class, f string, a ...any) {
			s.Violation(c, j.CaseID(c), "C09.longchain", class, fmt.Sprintf("chain of %d typedefs on %s, %s, two modules: %v: ", n, base, order, two)+fmt.Sprintf(f, a...), cs, map[string]any{"links": n, "order": order})
		}
		func() {
			defer func() {
				if rec := recover(); rec != nil {
					bad("panic", "%v", rec)
				}
			}()
			ms := yang.NewModules()
			files := []int{0}
			if two {
				files = []int{0, 1}
				if r.Intn(2) == 0 {
					files = []int{1, 0}
				}
			}
			for _, h := range files {
				if err := ms.Parse(texts[h], []string{"la", "lb"}[h]+".yang"); err != nil {
					bad("parse-error", "%v", err)
					return
				}
			}
			if errs := ms.Process(); len(errs) > 0 {
				bad("spurious-error", "%d errors, the first: %v", len(errs), errs[0])
				return
			}
			root := yang.ToEntry(ms.Modules[[]string{"la", "lb"}[leafHome]])
			for _, e := range []*yang.Entry{root.Dir["end"], root.Dir["c"].Dir["ends"]} {
				s.Count("leaves_checked", 1)
				switch t := e.Type; {
				case t == nil:
					bad("type-nil", "leaf %s has no type", e.Name)
				case t.Kind.String() != base:
					bad("type-kind", "leaf %s is a %s", e.Name, t.Kind)
				case t.Units != wantUnits:
					bad("type-units", "leaf %s has units %q, the nearest definition says %q", e.Name, t.Units, wantUnits)
				case (t.HasDefault && t.Default != wantDef) || (!t.HasDefault && wantDef != ""):
					bad("type-default", "leaf %s has default %q (%v), the nearest definition says %q", e.Name, t.Default, t.HasDefault, wantDef)
				case strings.Join(t.Pattern, " ") != strings.Join(wantPat, " "):
					bad("type-pattern", "leaf %s has %d patterns, the chain has %d", e.Name, len(t.Pattern), len(wantPat))
				case t.Name != fmt.Sprintf("t%d", n-1):
					bad("type-name", "leaf %s has a type named %s", e.Name, t.Name)
				}
			}
		}()
	}
}

// Unions is the third family of C09: unions whose members are typedefs of one base type that
// differ only in what their derivation chains say (units, default), written in a leaf and
// behind a typedef; every member written is a member of the resolved type, in written order,
// with its own units and default. One case in three also has a typedef that nothing uses and
// whose type does not exist - current, deprecated or obsolete, at the top, in a container or in
// the input of an rpc: it is reported all the same.
func Unions(j *job.Job, s *job.Sink) {
	for c := j.Start; c < j.Start+j.Count; c++ {
		r := prng.For(j.Seed, "C09", "unions", c)
		base := []string{"uint32", "string", "boolean", "int8"}[r.Intn(4)]
		k := 2 + r.Intn(3)
		defs := map[string][]string{"uint32": {"1", "2", "3", "4"}, "string": {"a", "b", "c", "d"}, "boolean": {"true", "false", "true", "false"}, "int8": {"-1", "0", "1", "2"}}[base]
		var b strings.Builder
		b.WriteString("module zu {\n  namespace \"urn:zu\";\n  prefix zu;\n")
		type mem struct{ name, units, def string }
		var ms []mem
		for i := 0; i < k; i++ {
			m := mem{name: fmt.Sprintf("m%d", i)}
			switch r.Intn(3) {
			case 0:
				m.units = fmt.Sprintf("u%d", i)
			case 1:
				m.def = defs[i]
				if base == "boolean" && i >= 2 {
					m.units = fmt.Sprintf("u%d", i) // (true/false repeat: tell these apart by units)
				}
			default:
				m.units, m.def = fmt.Sprintf("u%d", i), defs[i]
			}
			ms = append(ms, m)
		}
		// no two members may be equal in everything (equal member types count as one)
		seen := map[string]bool{}
		for i := range ms {
			for seen[ms[i].units+"\x00"+ms[i].def] {
				ms[i].units += "x"
			}
			seen[ms[i].units+"\x00"+ms[i].def] = true
		}
		// a link between the member and the base, half of the time: the chain is what differs
		for _, m := range ms {
			inner := base
			if r.Intn(2) == 0 {
				fmt.Fprintf(&b, "  typedef %sb { type %s; }\n", m.name, base)
				inner = m.name + "b"
			}
			fmt.Fprintf(&b, "  typedef %s {\n    type %s;\n", m.name, inner)
			if m.units != "" {
				fmt.Fprintf(&b, "    units %q;\n", m.units)
			}
			if m.def != "" {
				fmt.Fprintf(&b, "    default %q;\n", m.def)
			}
			b.WriteString("  }\n")
		}
		union := "type union {"
		for _, m := range ms {
			union += " type " + m.name + ";"
		}
		union += " }"
		fmt.Fprintf(&b, "  leaf l {\n    %s\n  }\n  typedef tu {\n    %s\n  }\n  leaf l2 {\n    type tu;\n  }\n  leaf-list l3 {\n    type zu:tu;\n  }\n", union, union)
		wantErr := ""
		if c%3 == 0 {
			status := []string{"", "status current; ", "status deprecated; ", "status obsolete; "}[r.Intn(4)]
			wantErr = fmt.Sprintf("gone%d", c)
			td := fmt.Sprintf("typedef zzunused { %stype %s; }", status, wantErr)
			if r.Intn(3) == 0 {
				td = fmt.Sprintf("typedef zzunused { %stype zzring; } typedef zzring { %stype zzunused; }", status, status)
				wantErr = "circular"
			}
			switch r.Intn(3) {
			case 0:
				fmt.Fprintf(&b, "  %s\n", td)
			case 1:
				fmt.Fprintf(&b, "  container box {\n    %s\n    leaf in { type string; }\n  }\n", td)
			default:
				fmt.Fprintf(&b, "  rpc op {\n    input {\n      %s\n      leaf arg { type string; }\n    }\n  }\n", td)
			}
			s.Count("union_sets_with_an_unused_faulty_typedef", 1)
		}
		b.WriteString("}\n")
		text := b.String()
		cs := map[string]string{"zu.yang": text}
		s.Current(c, cs)
		s.Count("union_sets", 1)
		s.Count("nontrivial", 1)
		bad := func(class, f string, a ...any) {
			s.Violation(c, j.CaseID(c), "C09.unions", class, fmt.Sprintf(f, a...), cs, nil)
		}
		ml := yang.NewModules()
		if err := ml.Parse(text, "zu.yang"); err != nil {
			bad("generator", "%v", err)
			continue
		}
		errs := ml.Process()
		if c%7 == 0 {
			errs = ml.Process() // a second run changes nothing
		}
		if wantErr != "" {
			found := false
			for _, e := range errs {
				if strings.Contains(e.Error(), wantErr) {
					found = true
				}
			}
			if !found {
				bad("unreported:unused-typedef", "the unused typedef's fault (%s) is not among the errors %v", wantErr, errs)
			}
			continue
		}
		if len(errs) > 0 {
			bad("spurious-error", "%v", errs[0])
			continue
		}
		e := yang.ToEntry(ml.Modules["zu"])
		for _, ln := range []string{"l", "l2", "l3"} {
			le := e.Dir[ln]
			if le == nil || le.Type == nil {
				bad("type-nil", "leaf %s has no type", ln)
				continue
			}
			s.Count("union_leaves_checked", 1)
			if le.Type.Kind != yang.Yunion {
				bad("type-kind", "leaf %s: kind %v, want union", ln, le.Type.Kind)
				continue
			}
			var got []string
			for _, m := range le.Type.Type {
				got = append(got, fmt.Sprintf("%s(%v units=%q default=%q/%v)", m.Name, m.Kind, m.Units, m.Default, m.HasDefault))
			}
			var want []string
			for _, m := range ms {
				want = append(want, fmt.Sprintf("%s(%s units=%q default=%q/%v)", m.name, base, m.units, m.def, m.def != ""))
			}
			if strings.Join(got, " ") != strings.Join(want, " ") {
				bad("type-union-members", "leaf %s: members %v, written %v", ln, got, want)
			}
		}
	}
}
