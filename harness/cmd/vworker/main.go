// vworker runs one job (a shard of one workload family of one property) against
// the goyang tree it was linked with, with the property's monitors attached, and
// writes results.jsonl and current-case into its working directory.
package main

import (
	"encoding/json"
	"fmt"
	"os"
	"runtime/debug"

	"verif/internal/job"
	"verif/internal/w01"
	"verif/internal/w02"
	"verif/internal/w03"
	"verif/internal/w04"
	"verif/internal/w05"
	"verif/internal/w06"
	"verif/internal/w08"
	"verif/internal/w09"
	"verif/internal/w10"
	"verif/internal/w11"
	"verif/internal/w13"
	"verif/internal/w14"
	"verif/internal/w15"
	"verif/internal/w18"
	"verif/internal/w19"
	"verif/internal/w20"
	"verif/internal/wtree"
)

type runner func(*job.Job, *job.Sink)

var registry = map[string]runner{
	"C02/enum":         w02.Enum,
	"C02/random":       w02.Random,
	"C16/random":       w02.Random,
	"C16/semantic":     w02.Semantic,
	"C16/files":        w13.Files,
	"C14/enum":         w14.Enum,
	"C14/literal":      w14.Literal,
	"C15/pairs":        w15.Pairs,
	"C15/literals":     w15.Literals,
	"C15/random":       w15.Random,
	"C15/schema":       w15.Schema,
	"C20/enum":         w20.Enum,
	"C20/large":        w20.Large,
	"C20/stacked":      w20.Stacked,
	"C13/revisions":    w13.Revisions,
	"C13/files":        w13.Files,
	"C13/split":        w13.Split,
	"C01/mutate":       w01.Mutate,
	"C01/hazards":      w01.Hazards,
	"C01/deep":         w01.Deep,
	"C01/lexical":      w01.Lexical,
	"C01/corpus":       w01.Corpus,
	"C03/trees":        w03.Run,
	"C03/processed":    w03.Processed,
	"C10/grid":         w10.Grid,
	"C10/chains":       w10.Chains,
	"C10/malformed":    w10.Malformed,
	"C10/child":        w10.Child,
	"C10/decgrid":      w10.DecGrid,
	"C10/decimals":     w10.Decimals,
	"C11/dag":          w11.Run,
	"C05/conflict":     w05.Run,
	"C05/generated":    w05.Run,
	"C05/cli":          w05.CLI,
	"C19/stress":       w19.Run,
	"C19/coldstart":    w19.ColdStart,
	"C18/history":      w18.Run,
	"C08/deviate":      w08.Run,
	"C04/tree":         wtree.Run,
	"C04/latefaults":   w04.Run,
	"C07/latefaults":   w04.Run,
	"C08/latefaults":   w04.Run,
	"C06/tree":         wtree.Run,
	"C06/independence": w06.Run,
	"C07/tree":         wtree.Run,
	"C09/tree":         wtree.Run,
	"C09/longchains":   w09.Run,
	"C09/unions":       w09.Unions,
	"C12/tree":         wtree.Run,
	"C17/tree":         wtree.Run,
	"C17/revisions":    w13.Revisions,
	"C12/revisions":    w13.Revisions,
}

// replayers re-run one concrete case of a family whose cases are not addressed by index.
var replayers = map[string]func(*job.Job, *job.Sink, []byte){
	"C20/enum": func(j *job.Job, s *job.Sink, raw []byte) {
		var c w20.Case
		if json.Unmarshal(raw, &c) == nil {
			if class, detail := w20.Check(c); class != "" {
				s.Violation(0, j.CaseID(0), "C20.writer", class, detail, c, nil)
			}
		}
	},
	"C02/enum": func(j *job.Job, s *job.Sink, raw []byte) {
		var c struct{ Text string }
		if json.Unmarshal(raw, &c) == nil {
			if v := w02.CheckText(c.Text, false, false); v.Class != "" {
				s.Violation(0, j.CaseID(0), "C02.enum", v.Class, v.Detail, c, nil)
			}
		}
	},
}

func main() {
	if len(os.Args) != 2 {
		fmt.Fprintln(os.Stderr, "usage: vworker job.json")
		os.Exit(2)
	}
	data, err := os.ReadFile(os.Args[1])
	if err != nil {
		fmt.Fprintln(os.Stderr, err)
		os.Exit(2)
	}
	var j job.Job
	if err := json.Unmarshal(data, &j); err != nil {
		fmt.Fprintln(os.Stderr, err)
		os.Exit(2)
	}
	if j.Replay && j.Params["case"] != "" {
		if rp := replayers[j.Property+"/"+j.Family]; rp != nil {
			sink, err := job.NewSink(".")
			if err != nil {
				fmt.Fprintln(os.Stderr, err)
				os.Exit(2)
			}
			rp(&j, sink, []byte(j.Params["case"]))
			sink.Close()
			return
		}
	}
	run := registry[j.Property+"/"+j.Family]
	if run == nil {
		fmt.Fprintf(os.Stderr, "no workload %s/%s\n", j.Property, j.Family)
		os.Exit(2)
	}
	sink, err := job.NewSink(".")
	if err != nil {
		fmt.Fprintln(os.Stderr, err)
		os.Exit(2)
	}
	// A panic that escapes a workload's own per-case recover is a harness or
	// library crash; let it kill the process with a full dump (the driver
	// attributes it to current-case), but make the dump complete.
	debug.SetTraceback("all")
	budget := 30.0
	if b := j.Params["case_cpu_s"]; b != "" {
		fmt.Sscan(b, &budget)
	}
	sink.Watch(budget, j.CaseID)
	run(&j, sink)
	sink.Close()
}
