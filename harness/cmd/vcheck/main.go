// vcheck is the driver of the goyang runtime-monitoring checks.
//
//	vcheck run <property> --tier quick|thorough
//	vcheck replay <replay.json>
//
// A run rebuilds the worker from /repo's current working tree (build tag verif),
// splits the tier's fixed case list over child processes, collects what their
// monitors report, matches it against known_findings.json, writes
// evidence/<property>.json and exits 0 (held on everything explored), 1 (violation,
// with a VIOLATION line) or 2 (inconclusive or broken run).
package main

import (
	"bytes"
	"encoding/json"
	"fmt"
	"os"
	"os/exec"
	"path/filepath"
	"regexp"
	"sort"
	"strconv"
	"strings"
	"sync"
	"syscall"
	"time"

	"verif/internal/evid"
	"verif/internal/job"
	"verif/internal/kf"
)

const maxProcs = 16

type env struct {
	root    string // /verif
	harness string // /verif/harness
	scratch string
	seed    int64
	tier    string
}

func fatal(code int, f string, a ...any) {
	fmt.Printf("BROKEN: "+f+"\n", a...)
	os.Exit(code)
}

func goEnv() []string {
	e := os.Environ()
	return append(e, "GOFLAGS=-mod=mod", "GOPROXY=off", "GOSUMDB=off", "GOTOOLCHAIN=local", "CGO_ENABLED=1")
}

// build compiles the worker from the current /repo tree.
func (e *env) build(race, cover bool) (string, error) {
	if w := os.Getenv("VERIF_WORKER"); w != "" && !race {
		return w, nil // measuring aid (coverage build made elsewhere); never set by a registered command
	}
	name := "vworker"
	args := []string{"build", "-tags", "verif"}
	if race {
		args = append(args, "-race")
		name += "-race"
	}
	if cover {
		args = append(args, "-cover", "-coverpkg=github.com/openconfig/goyang/...")
		name += "-cover"
	}
	out := filepath.Join(e.scratch, name)
	if mf := os.Getenv("VERIF_MODFILE"); mf != "" {
		// Only for trials against a scratch copy of goyang (mutation trials); the
		// registered commands never set it and always build against /repo.
		args = append(args, "-modfile="+mf)
	}
	args = append(args, "-o", out, "./cmd/vworker")
	cmd := exec.Command("go", args...)
	cmd.Dir = e.harness
	cmd.Env = goEnv()
	b, err := cmd.CombinedOutput()
	if err != nil {
		return "", fmt.Errorf("go %s: %v\n%s", strings.Join(args, " "), err, b)
	}
	return out, nil
}

func coverDir(e *env) string {
	d := os.Getenv("VERIF_COVER")
	if d == "" {
		d = filepath.Join(e.scratch, "cover")
	}
	os.MkdirAll(d, 0o755)
	return d
}

// A result is what one worker process left behind.
type result struct {
	j          *job.Job
	dir        string
	records    []*job.Record
	done       bool   // the worker wrote its final note
	exit       string // "", "exit N", "signal X"
	cpuLimited bool
	watchdog   bool
	stderrTail string
	current    json.RawMessage
	curIndex   int64
	cpuS       float64
}

var frameRe = regexp.MustCompile(`(?m)^github\.com/openconfig/goyang[^\s(]*\.([^\s(]+(?:\([^)]*\))?[^\s(]*)\(`)

// crashSignature extracts the kind of crash and the innermost goyang function.
func crashSignature(stderr string) (kind, frame string) {
	kind = "unknown"
	for _, l := range strings.Split(stderr, "\n") {
		switch {
		case strings.HasPrefix(l, "fatal error: "):
			kind = strings.TrimPrefix(l, "fatal error: ")
		case strings.HasPrefix(l, "panic: "):
			kind = strings.TrimPrefix(l, "panic: ")
			if i := strings.Index(kind, " [recovered]"); i > 0 {
				kind = kind[:i]
			}
		default:
			continue
		}
		break
	}
	if len(kind) > 90 {
		kind = kind[:90]
	}
	// first goyang frame of the first goroutine that has one
	idx := strings.Index(stderr, "goroutine ")
	s := stderr
	if idx >= 0 {
		s = stderr[idx:]
	}
	first := ""
	count := map[string]int{}
	seen := 0
	for _, l := range strings.Split(s, "\n") {
		if strings.HasPrefix(l, "github.com/openconfig/goyang/") {
			f := l
			if i := strings.LastIndex(f, "("); i > 0 {
				f = f[:i]
			}
			f = strings.TrimPrefix(f, "github.com/openconfig/goyang/")
			if first == "" {
				first = f
				if !strings.Contains(kind, "stack overflow") {
					return kind, f
				}
			}
			count[f]++
			if seen++; seen >= 120 {
				break
			}
		}
	}
	// A runaway recursion is named after the function that recurs most, not after
	// whatever leaf call happened to be innermost when the stack ran out.
	best := first
	for f, n := range count {
		if n > count[best] || (n == count[best] && f < best) {
			best = f
		}
	}
	return kind, best
}

// runWorker starts one child and waits for it.
func (e *env) runWorker(bin string, j *job.Job, n int, cpuS, asKB int, wallS int) *result {
	dir := filepath.Join(e.scratch, fmt.Sprintf("job-%s-%s-%d", j.Property, j.Family, n))
	os.MkdirAll(dir, 0o755)
	jb, _ := json.Marshal(j)
	os.WriteFile(filepath.Join(dir, "job.json"), jb, 0o644)
	lim := fmt.Sprintf("ulimit -t %d; ", cpuS)
	if asKB > 0 {
		lim += fmt.Sprintf("ulimit -v %d; ", asKB)
	}
	cmd := exec.Command("sh", "-c", lim+"exec \"$0\" job.json", bin)
	cmd.Dir = dir
	cmd.Env = append(os.Environ(), "GORACE=halt_on_error=0 log_path="+filepath.Join(dir, "race"), "GOTRACEBACK=all", "GOCOVERDIR="+coverDir(e))
	so, _ := os.Create(filepath.Join(dir, "stdout"))
	se, _ := os.Create(filepath.Join(dir, "stderr"))
	cmd.Stdout, cmd.Stderr = so, se
	cmd.SysProcAttr = &syscall.SysProcAttr{Setpgid: true}
	res := &result{j: j, dir: dir}
	if err := cmd.Start(); err != nil {
		res.exit = "start: " + err.Error()
		return res
	}
	doneCh := make(chan error, 1)
	go func() { doneCh <- cmd.Wait() }()
	var err error
	select {
	case err = <-doneCh:
	case <-time.After(time.Duration(wallS) * time.Second):
		syscall.Kill(-cmd.Process.Pid, syscall.SIGQUIT)
		select {
		case err = <-doneCh:
		case <-time.After(10 * time.Second):
			syscall.Kill(-cmd.Process.Pid, syscall.SIGKILL)
			err = <-doneCh
		}
		res.watchdog = true
	}
	so.Close()
	se.Close()
	if cmd.ProcessState != nil {
		res.cpuS = cmd.ProcessState.UserTime().Seconds() + cmd.ProcessState.SystemTime().Seconds()
		if ws, ok := cmd.ProcessState.Sys().(syscall.WaitStatus); ok {
			switch {
			case ws.Signaled():
				res.exit = "signal " + ws.Signal().String()
				if (ws.Signal() == syscall.SIGKILL || ws.Signal() == syscall.SIGXCPU) && res.cpuS >= float64(cpuS)-1 {
					res.cpuLimited = true
				}
			case ws.ExitStatus() != 0:
				res.exit = fmt.Sprintf("exit %d", ws.ExitStatus())
			}
		}
	} else if err != nil {
		res.exit = err.Error()
	}
	// results
	if f, err := os.ReadFile(filepath.Join(dir, "results.jsonl")); err == nil {
		for _, l := range bytes.Split(f, []byte{'\n'}) {
			if len(l) == 0 {
				continue
			}
			var r job.Record
			if json.Unmarshal(l, &r) == nil {
				if r.Type == "note" && r.Detail == "done" {
					res.done = true
					continue
				}
				res.records = append(res.records, &r)
			}
		}
	}
	if b, err := os.ReadFile(filepath.Join(dir, "stderr")); err == nil {
		if len(b) > 200000 {
			b = append(b[:150000], b[len(b)-50000:]...)
		}
		res.stderrTail = string(b)
	}
	if b, err := os.ReadFile(filepath.Join(dir, "current-case")); err == nil {
		var cur struct {
			Index int64           `json:"index"`
			Case  json.RawMessage `json:"case"`
		}
		if json.Unmarshal(b, &cur) == nil {
			res.curIndex, res.current = cur.Index, cur.Case
		}
	}
	// race reports
	if matches, _ := filepath.Glob(filepath.Join(dir, "race.*")); len(matches) > 0 {
		for _, m := range matches {
			if b, err := os.ReadFile(m); err == nil && bytes.Contains(b, []byte("WARNING: DATA RACE")) {
				for _, blk := range strings.Split(string(b), "==================") {
					if !strings.Contains(blk, "WARNING: DATA RACE") {
						continue
					}
					inGoyang := strings.Contains(blk, "github.com/openconfig/goyang/")
					res.records = append(res.records, &job.Record{Type: "violation", Monitor: "race-detector", Class: map[bool]string{true: "data-race", false: "data-race-outside-goyang"}[inGoyang], Detail: strings.TrimSpace(blk), CaseID: j.CaseID(res.curIndex), Case: res.current})
				}
			}
		}
	}
	return res
}

// spec describes one family of a tier.
type spec struct {
	family string
	cases  int64             // indexed family: number of cases
	shards int               // enumeration family: number of shards (cases == 0)
	params map[string]string // passed to the worker
	race   bool
	cpuS   int // CPU seconds per worker
	asKB   int // address-space limit in KB (0 = none; never with -race)
	wallS  int // wall-clock watchdog per worker
	level  string
}

type propertyPlan struct {
	level       string
	rule        string
	assumptions []string
	minObserved map[string]int64 // counters that must reach a minimum, else inconclusive
	nontrivial  string           // counter holding distinct_nontrivial
	evaluations string           // counters (comma separated) that add up to evaluations
	exhaustive  bool
	quick       []spec
	thorough    []spec
}

func plans() map[string]*propertyPlan {
	sigma15 := "a+;{}\"'\\nt \n\t/*"
	enumSpec := func(alpha string, n int, pre, suf string, shards int) spec {
		return spec{family: "enum", shards: shards, params: map[string]string{"alphabet": alpha, "maxlen": strconv.Itoa(n), "pre": pre, "suf": suf}, cpuS: 3600, asKB: 8 << 20, wallS: 5400}
	}
	treePlan := func(what string, q, t int64) *propertyPlan {
		return &propertyPlan{
			level:       "exploration",
			rule:        "random module sets (1-3 modules, 0-2 submodules each, groupings at every scope, uses across modules and submodules, chained augments incl. into choices and absent rpc input/output, typedefs with shadowing, explicit config, rpc/action/notification) loaded in shuffled order; " + what + "; a set is non-trivial when it combines at least two of {submodules, augments, imports, 3+ files}; sets are distinct by construction of the generator (fresh names per case index)",
			assumptions: []string{"the reference resolver (DESIGN.md appendix A) is the intended semantics; it agrees with goyang on every in-claim set explored except the recorded defects", "generated schemas stay inside the intersection of RFC 7950 and what goyang implements (no refine, no uses-augment, no config on shorthand choice members)"},
			minObserved: map[string]int64{"clean_sets_compared": q / 4, "nodes_compared": q},
			nontrivial:  "nontrivial", evaluations: "sets",
			quick:    []spec{{family: "tree", cases: q, cpuS: 900, asKB: 8 << 20, wallS: 1200}},
			thorough: []spec{{family: "tree", cases: t, cpuS: 7200, asKB: 8 << 20, wallS: 9000}},
		}
	}
	c06 := treePlan("the subtree under every using node is compared with the reference expansion (names, kinds, nesting, types bound at the definition site, namespace of the using module) and no Entry object may be shared between two instances; in the independence family one grouping (with a list, a leaf-list with 1-5 defaults, defaulted and mandatory leaves, a config-false container, a choice, optionally an action; optionally nested through a second grouping) is used in three places plus a later-loaded module, one instance is changed by 1-4 deviations or augments written in another module, and every other instance must dump exactly as without that module", 30000, 400000)
	c06.quick = append(c06.quick, spec{family: "independence", cases: 9000, cpuS: 900, asKB: 8 << 20, wallS: 1200})
	c06.thorough = append(c06.thorough, spec{family: "independence", cases: 150000, cpuS: 7200, asKB: 8 << 20, wallS: 9000})
	c06.evaluations = "sets,cases"
	c06.minObserved["instances_compared"] = 5000
	late := func(pl *propertyPlan, q, t int64) *propertyPlan {
		pl.quick = append(pl.quick, spec{family: "latefaults", cases: q, cpuS: 900, asKB: 8 << 20, wallS: 1200})
		pl.thorough = append(pl.thorough, spec{family: "latefaults", cases: t, cpuS: 7200, asKB: 8 << 20, wallS: 9000})
		pl.evaluations = "sets,late_fault_sets"
		pl.minObserved["late_fault_sets"] = q / 2
		pl.rule += "; plus the late-fault family: 41 templates of faults that arise only during augment merging or deviation application, or inside rpc/action input/output (colliding augments from two modules, collision with a uses-provided child, childless targets, a missing target behind an augment chain, a bogus step under an rpc, unknown type / bad range / unknown grouping inside input or output, an unresolvable replacement type, a doubly removed node), with random padding and load order - Process must report an error"
		return pl
	}
	c17 := treePlan("on every set whose trees match, 60 sampled (start, target) pairs: absolute prefixed path from the start node's defining module, relative path through the common ancestor, and the absolute path with one step replaced by a fresh name (must return nothing); the input and output of every rpc and action are looked up, written or not (Parent, Path and the way back through ..); plus the header sets of C13 (several revisions of one module, importer with or without revision-date, all load orders): an absolute path whose first prefix is that import resolves in exactly the revision the import denotes", 30000, 400000)
	c17.quick = append(c17.quick, spec{family: "revisions", cases: 1500, cpuS: 900, asKB: 8 << 20, wallS: 1200})
	c17.thorough = append(c17.thorough, spec{family: "revisions", cases: 30000, cpuS: 7200, asKB: 8 << 20, wallS: 9000})
	c17.evaluations = "sets,header_sets"
	c17.minObserved["path_lookups_through_import"] = 1000
	c12 := treePlan("ReadOnly, Namespace and InstantiatingModule of every node are compared with the reference; on sets of module headers with several revisions of one module, every node of every revision is attributed to the module of that name", 30000, 400000)
	c12.quick = append(c12.quick, spec{family: "revisions", cases: 1500, cpuS: 900, asKB: 8 << 20, wallS: 1200})
	c12.thorough = append(c12.thorough, spec{family: "revisions", cases: 30000, cpuS: 7200, asKB: 8 << 20, wallS: 9000})
	c12.evaluations = "sets,header_sets"
	c12.minObserved["instantiating_module_queries"] = 1000
	c09 := treePlan("the resolved type of every leaf (base kind, units, default, accumulated patterns) is compared with the reference binder; plus derivation chains of 3 to 13000 typedefs (30000 in the thorough tier) on string, int32, uint8 and decimal64, declared base first, most derived first or shuffled, in one module or alternating between two that import each other: the leaf at the end carries the base kind, the nearest units and default and every pattern of the chain", 30000, 400000)
	c09.quick = append(c09.quick, spec{family: "longchains", cases: 96, params: map[string]string{"case_cpu_s": "120"}, cpuS: 900, asKB: 8 << 20, wallS: 1200})
	c09.quick = append(c09.quick, spec{family: "unions", cases: 6000, cpuS: 600, asKB: 8 << 20, wallS: 900})
	c09.thorough = append(c09.thorough, spec{family: "unions", cases: 200000, cpuS: 3600, asKB: 8 << 20, wallS: 5400})
	c09.thorough = append(c09.thorough, spec{family: "longchains", cases: 960, params: map[string]string{"case_cpu_s": "300"}, cpuS: 7200, asKB: 8 << 20, wallS: 9000})
	c09.evaluations = "sets,chains"
	c09.minObserved["leaves_checked"] = 100
	return map[string]*propertyPlan{
		"C04": late(treePlan("after a clean Process every tree is walked (Dir and rpc input/output): name/key, parent pointers, no Entry object reached twice, kind vs child map/type/list attributes, choice children are cases, no unapplied augment, no node with recorded errors; and the set of errors expected by the reference must not be silently absent", 30000, 400000), 3900, 52000),
		"C06": c06,
		"C07": late(treePlan("augmented trees are compared with the reference graft (children, namespace and instantiating module of grafted nodes) and augments the reference cannot apply must be reported", 30000, 400000), 2100, 28000),
		"C09": c09,
		"C12": c12,
		"C17": c17,
		"C02": {
			level:       "exploration",
			rule:        "every string over the stated token alphabets up to the length bound, as a whole input and framed as `a <s>;`, `a{<s>}`, `a \"b\"<s>` and `pattern <s>;`, plus grammar-directed random texts with layout noise; yang.Parse vs an independent RFC 7950 s.6 reader; texts containing one of the four excluded constructs are counted as out_of_claim and not judged; non-trivial = contains a quote, escape, comment or brace; enumerated texts are distinct by construction",
			assumptions: []string{"the reference reader rfclex is a correct reading of RFC 7950 6.1-6.3 (it was written from the RFC and agrees with goyang on every in-claim text explored except the recorded defects)"},
			minObserved: map[string]int64{"texts": 100000, "accepted": 1000},
			nontrivial:  "nontrivial", evaluations: "texts", exhaustive: true,
			quick: []spec{
				enumSpec(sigma15, 5, "", "", 16), enumSpec(sigma15, 5, "a ", ";", 16), enumSpec(sigma15, 4, "a{", "}", 8), enumSpec(sigma15, 5, "a \"b\"", "", 16), enumSpec(sigma15, 4, "pattern ", ";", 8),
				// deep look-ahead behind a quoted string over the five symbols that matter there
				// (a seeded change that took a quoted "+" for the concatenation operator needs
				// `"+""b"`, six symbols, which the 15-symbol enumerations do not reach)
				enumSpec("a+\"' ", 7, "a \"b\"", ";", 8), enumSpec("a+\"';{}", 6, "a ", "", 8),
				// runs of punctuation across deep nesting (a seeded change lost every token after
				// the eighth of such a run), and escapes inside the substatements of a pattern
				enumSpec("a;{} \n", 5, "a{b{c{d{e{f{g{h", "}}}}}}}", 8), enumSpec("a;{} ", 5, "a{b{c{d{e{f{g{h{i{j{k;}}}", "}}}}}}}}", 8),
				enumSpec("a\\dn\" ", 5, "pattern \"a\" { b \"", "\"; }", 8), enumSpec("a\\dn\" +", 5, "pattern ", " { pattern \"\\d\"; b \"\\n\"; }", 8),
				// characters a byte-minded lexer takes for syntax: U+4E0D (low byte CR), U+2020 (low
				// byte blank), U+013B (low byte ';'), the replacement character, NUL
				enumSpec("a;{\" 不†Ļ\ufffd\x00", 5, "", "", 16), enumSpec("a 不†Ļ\ufffd\x00\n", 5, "a \"b\"", ";", 8), enumSpec("a 不\ufffd'\"", 5, "a '", "';", 8),
				{family: "random", cases: 200000, cpuS: 600, asKB: 8 << 20, wallS: 900},
			},
			thorough: []spec{
				enumSpec(sigma15, 6, "", "", 64), enumSpec(sigma15, 6, "a ", ";", 64), enumSpec(sigma15, 5, "a{", "}", 16), enumSpec(sigma15, 6, "a \"b\"", "", 64), enumSpec(sigma15, 5, "pattern ", ";", 16),
				enumSpec("a+\"' ", 9, "a \"b\"", ";", 32), enumSpec("a+\"';{}", 8, "a ", "", 32), enumSpec("a+\"' \n", 8, "a \"b\"", ";", 32),
				enumSpec("a;{}\"\\n \n", 8, "", "", 64), enumSpec("a+\"';\n /*", 7, "", "", 32), enumSpec("a\" \n\t\\n;", 8, "", "", 64),
				enumSpec("a;{}\" 不†Ļ\ufffd\x00", 6, "", "", 64), enumSpec("a 不†Ļ\ufffd\x00\n;", 6, "a \"b\"", ";", 32), enumSpec("a 不\ufffd'\"\n", 6, "a '", "';", 16),
				{family: "random", cases: 2000000, cpuS: 3600, asKB: 8 << 20, wallS: 5400},
			},
		},
		"C16": {
			level:       "exploration",
			rule:        "grammar-directed random texts with tabs, multi-byte characters, both comment styles, multi-line strings and CR LF; every statement position of an accepted text is compared with the position computed by the reference reader, and each accepted text is re-run with one injected lexical or syntactic fault whose position the first error line must name; semantic faults of 12 kinds whose error must name the exact injected statement; and modules fetched from generated search-path layouts (the family of C13), whose statement positions must name the file that was actually opened (file.read hook event); non-trivial = a tab, quote or multi-byte character occurs in the text",
			assumptions: []string{"positions are 1-based lines and 1-based character columns (a tab is one character)"},
			minObserved: map[string]int64{"statements": 10000, "fault_texts": 1000, "positions_checked": 500},
			nontrivial:  "nontrivial", evaluations: "texts,fault_sets,layouts",
			quick:    []spec{{family: "random", cases: 150000, cpuS: 600, asKB: 8 << 20, wallS: 900}, {family: "semantic", cases: 24000, cpuS: 600, asKB: 8 << 20, wallS: 900}, {family: "files", cases: 1500, cpuS: 600, asKB: 8 << 20, wallS: 900}},
			thorough: []spec{{family: "random", cases: 2000000, cpuS: 3600, asKB: 8 << 20, wallS: 5400}, {family: "semantic", cases: 200000, cpuS: 3600, asKB: 8 << 20, wallS: 5400}, {family: "files", cases: 30000, cpuS: 3600, asKB: 8 << 20, wallS: 5400}},
		},
		"C01": {
			level:       "exploration",
			rule:        "four families, each case logged before it runs in a child process with a CPU budget: (mutate) generated valid module sets with token- and byte-level mutations, shuffled load order, missing dependencies, a tenth loaded from files; (hazards) 32 templates of dangerous constructs (top-level non-modules, internal field names as keywords, typedef/uses/identity/import/include cycles, augment and deviation of every kind of target and malformed paths, orphan and mis-owned submodules, numeric extremes in every numeric argument) filled at random, 1-3 per set; (lexical) pathological texts up to the size bound (deep nesting, 10^5-piece concatenations, unterminated tokens, error floods, random bytes, invalid UTF-8, NUL, BOM, bare CR); (corpus) the repository's YANG files as they are and mutated. Every case goes through yang.Parse, Modules.Parse or Read, Process, error strings and - after a clean Process - ToEntry of every module and submodule with a full read walk (GetErrors, Find with the node's own paths and 25 hostile paths, Namespace, InstantiatingModule, ReadOnly, DefaultValues, Path, Print). Oracle: no panic, no fatal error, child exits by return within its CPU budget. Non-trivial = at least one text was loaded; distinct normalised error classes seen are reported",
			assumptions: []string{"texts are at most 64 KiB (quick) or 1 MiB (thorough); recursion proportional to nesting beyond that is not explored", "reads after a failed Process are not driven: nothing but errors comes back from it", "CPU seconds of the child, not wall-clock time, decide 'returns in bounded time'"},
			minObserved: map[string]int64{"cases": 20000, "outcome:clean": 500, "outcome:process-error": 2000},
			nontrivial:  "nontrivial", evaluations: "cases",
			quick:    []spec{{family: "mutate", cases: 40000, cpuS: 600, asKB: 8 << 20, wallS: 1500}, {family: "hazards", cases: 30000, cpuS: 600, asKB: 8 << 20, wallS: 1500}, {family: "lexical", cases: 1200, params: map[string]string{"case_cpu_s": "120"}, cpuS: 900, asKB: 8 << 20, wallS: 1500}, {family: "corpus", cases: 6000, cpuS: 600, asKB: 8 << 20, wallS: 1500}, {family: "deep", cases: 2, params: map[string]string{"case_cpu_s": "300"}, cpuS: 900, asKB: 16 << 20, wallS: 1500}},
			thorough: []spec{{family: "mutate", cases: 900000, cpuS: 7200, asKB: 8 << 20, wallS: 9000}, {family: "hazards", cases: 500000, cpuS: 7200, asKB: 8 << 20, wallS: 9000}, {family: "lexical", cases: 12000, params: map[string]string{"case_cpu_s": "300"}, cpuS: 7200, asKB: 8 << 20, wallS: 9000}, {family: "corpus", cases: 100000, cpuS: 7200, asKB: 8 << 20, wallS: 9000}, {family: "deep", cases: 2, params: map[string]string{"case_cpu_s": "300"}, cpuS: 900, asKB: 16 << 20, wallS: 1500}},
		},
		"C03": {
			level:       "exploration",
			rule:        "random statement trees over goyang's own keyword table (derived by reflection from the yang struct tags; the internal field names Name, Statement, Parent, Ext are not keywords): children mostly valid in context, with deliberate unknown keywords, second occurrences of single-valued substatements, missing mandatory substatements, prefixed extension statements at every level, and top-level statements that are not modules; a tree containing one of the four must-reject classes must be rejected, and every accepted tree is walked by reflection: each substatement paired with exactly one node (by *Statement identity), under the field of its keyword, in source order, with name, parent link and statement link; non-trivial = accepted with depth >= 3, or containing a must-reject fault; trees are distinct by construction",
			assumptions: []string{"'known in its context' means: the parent's Go type has a field tagged with that keyword - the table is goyang's own declaration, not the RFC's"},
			minObserved: map[string]int64{"accepted": 2000, "rejected_as_required": 2000, "nodes_paired": 20000},
			nontrivial:  "nontrivial", evaluations: "trees",
			quick:    []spec{{family: "trees", cases: 300000, cpuS: 900, asKB: 8 << 20, wallS: 1200}, {family: "processed", cases: 6000, cpuS: 900, asKB: 8 << 20, wallS: 1200}},
			thorough: []spec{{family: "trees", cases: 6000000, cpuS: 7200, asKB: 8 << 20, wallS: 9000}, {family: "processed", cases: 100000, cpuS: 7200, asKB: 8 << 20, wallS: 9000}},
		},
		"C10": {
			level:       "exploration",
			rule:        "(grid) every one- and two-part integer restriction over a 27-value boundary grid (type minima/maxima +-1, 0, -0, 2^63, 2^64-1): accepted iff every part is in order and within 64 bits, result equals the written set, is sorted, disjoint and coalesced, and Contains agrees with exact subset against all eight built-in ranges (overlapping or unsorted parts may be rejected or united); (decgrid) the same for decimal64 at fraction-digits 1, 2, 3, 9, 17, 18 over a grid of mantissas around the int64 extremes, zero, one unit and ten units, through ParseRangesDecimal; (chains) random typedef chains of depth 1-3 over the eight integer types, string lengths and decimal64 at every fraction-digits, with min/max and random spacing: a level that admits a value its parent does not must be rejected, otherwise Entry.Type.Range/Length must equal the innermost written set; (malformed) clearly malformed strings must be rejected; (child) the library's own child-restriction routine, reached through the verif hook accessor, is driven with random coalesced parent sets (1-3 parts inside int8, uint8, int16, uint32, int64, uint64 and decimal64 at every fraction-digits) and child restrictions of 1-3 parts built from the parent's bounds, their neighbours, midpoints, min and max: a part out of order or a value outside the parent must be rejected, otherwise the result must be the written set, sorted, disjoint, coalesced and within the parent; oracle math/big; non-trivial = two parts or chain depth > 1; cases distinct by construction",
			assumptions: []string{"number-literal leniency (hex, octal, underscore, leading plus, '1.', '.5') is not judged: C15 scopes literal forms and goyang documents base-0 parsing"},
			minObserved: map[string]int64{"restrictions": 100000, "chains_compared": 5000},
			nontrivial:  "nontrivial", evaluations: "restrictions,chains,malformed,child_restrictions,decimal_restrictions",
			quick:    []spec{{family: "grid", shards: 32, cpuS: 900, asKB: 8 << 20, wallS: 1200}, {family: "chains", cases: 150000, cpuS: 900, asKB: 8 << 20, wallS: 1200}, {family: "malformed", shards: 4, cpuS: 600, asKB: 8 << 20, wallS: 900}, {family: "child", cases: 1000000, cpuS: 900, asKB: 8 << 20, wallS: 1200}, {family: "decgrid", shards: 16, cpuS: 900, asKB: 8 << 20, wallS: 1200}, {family: "decimals", cases: 8000, cpuS: 600, asKB: 8 << 20, wallS: 900}},
			thorough: []spec{{family: "decimals", cases: 300000, cpuS: 3600, asKB: 8 << 20, wallS: 5400}, {family: "grid", shards: 64, cpuS: 7200, asKB: 8 << 20, wallS: 9000}, {family: "chains", cases: 1000000, cpuS: 7200, asKB: 8 << 20, wallS: 9000}, {family: "malformed", shards: 4, cpuS: 600, asKB: 8 << 20, wallS: 900}, {family: "child", cases: 20000000, cpuS: 7200, asKB: 8 << 20, wallS: 9000}, {family: "decgrid", shards: 16, cpuS: 900, asKB: 8 << 20, wallS: 1200}},
		},
		"C05": {
			level:       "exploration",
			rule:        "tie- and conflict-rich sets (equal identity names across modules, several deviate kinds in one deviation, commuting and conflicting augments from several modules, several revisions of one module, several independent errors and missing dependencies, augment chains against load order) and generated sets (half with injected faults), each executed R times in each of up to P load orders (R=48,P=6 quick; R=128,P=24 thorough) on fresh module sets; the canonical dumps (trees, types, identity value order, error list in returned order) must be one; every returned error list is independently checked for (file,line,column) order and duplicates; the goyang command is run 10 times per format with shuffled arguments; non-trivial = at least two files; sets are distinct by construction",
			assumptions: []string{"Go randomises every range over a map; repetition samples iteration orders (the rarest alternative order of a 2-entry map has p=1/8 per iteration), it does not enumerate them", "two texts with the same (name, revision) are not generated here: their rejection is C13's subject and is order-dependent by construction"},
			minObserved: map[string]int64{"executions": 50000, "error_outcomes": 20},
			nontrivial:  "nontrivial", evaluations: "executions",
			quick: []spec{{family: "conflict", cases: 360, cpuS: 900, asKB: 8 << 20, wallS: 1200}, {family: "generated", cases: 320, cpuS: 900, asKB: 8 << 20, wallS: 1200}, {family: "cli", cases: 48, cpuS: 900, wallS: 1200}},
			// (a thorough case is 128 x 24 executions of one set, a third of them with extra processing runs: the budget per case is raised accordingly)
			thorough: []spec{{family: "conflict", cases: 10000, params: map[string]string{"case_cpu_s": "600"}, cpuS: 7200, asKB: 8 << 20, wallS: 9000}, {family: "generated", cases: 10000, params: map[string]string{"case_cpu_s": "600"}, cpuS: 7200, asKB: 8 << 20, wallS: 9000}, {family: "cli", cases: 400, cpuS: 7200, wallS: 9000}},
		},
		"C19": {
			level:       "exploration",
			rule:        "worker built with -race; rounds alternate between (1) 16 goroutines, released from a barrier, each loading and processing its own generated module set three times, result compared with the sequential dump, and (2) one processed set read by 16 goroutines at once (canonical dump incl. Namespace, InstantiatingModule and first-time FindModuleByNamespace, ToEntry from the cache, Find by child name and ../name, GetErrors, SingleDefaultValue, Path, Print), each view compared with the sequential reader's; plus mixed rounds (eight pipelines next to eight readers) and cold starts (fresh processes whose first use of the library is a burst of 16 concurrent loads, repeated sequentially afterwards); readers also look up every node by its absolute path and the existing input/output of every rpc and action; every race-detector report is a violation; the set of distinct barrier-arrival orders and yield-point arrival sequences observed is reported; every round is non-trivial; rounds use distinct generated sets",
			assumptions: []string{"goroutine schedules are sampled, not enumerated", "only the operations the property lists are issued concurrently; lookups of absent rpc input/output create nodes and are not issued"},
			minObserved: map[string]int64{"pipeline_runs": 1000, "reader_views": 500},
			nontrivial:  "nontrivial", evaluations: "rounds",
			quick:    []spec{{family: "stress", cases: 400, race: true, cpuS: 1800, wallS: 1800}, {family: "coldstart", shards: 48, race: true, cpuS: 600, wallS: 900}},
			thorough: []spec{{family: "stress", cases: 12000, race: true, cpuS: 14400, wallS: 14400}, {family: "coldstart", shards: 480, race: true, cpuS: 600, wallS: 900}},
		},
		"C18": {
			level:       "exploration",
			rule:        "generated module sets turned into operation histories: load of good texts in random order (one in eight carrying a semantic error), load of bad variants (syntax error, rejected statement at the top and after nested typedef scopes were built, incl. cyclic and dangling typedefs), texts with several top-level statements of which a later (or the first) one is rejected, identity hierarchies over 2-4 modules with a late submodule, namespace twins, a newer revision arriving late, process, process again, read walks (Find incl. absent rpc input/output, InstantiatingModule), callers that clear the entry cache and convert on their own; after every process the canonical dump and the module, typedef and identity tables of the live set are compared with a fresh set loaded with the good texts so far and processed once; non-trivial = at least three process steps or a failed load; histories are distinct by construction",
			assumptions: []string{"a text with several top-level statements of which a later one is rejected is documented by goyang to leave the earlier modules behind (recorded finding); the monitor then demands that the set behaves exactly as if the kept statements alone had been offered"},
			minObserved: map[string]int64{"process_steps_compared": 5000},
			nontrivial:  "nontrivial", evaluations: "histories",
			quick:    []spec{{family: "history", cases: 12000, cpuS: 900, asKB: 8 << 20, wallS: 1200}},
			thorough: []spec{{family: "history", cases: 300000, cpuS: 7200, asKB: 8 << 20, wallS: 9000}},
		},
		"C08": {
			level:       "exploration",
			rule:        "random base modules (leaves, leaf-lists, lists, containers, some inside a container) and a deviating module with 1-3 deviations of 1-3 deviate statements each (add/replace/delete/not-supported of config, default, mandatory, min/max-elements), only combinations whose RFC 7950 7.20.3.2 meaning is unambiguous; each case is run 16 (quick) or 48 (thorough) times: target values vs the reference application in written order, every untargeted node vs the run without the deviating module, and the six classes of non-applicable deviations must be reported; non-trivial = at least two deviate statements; cases are distinct by construction",
			assumptions: []string{"deviate add of a property that already exists (other than default) and replace of an absent one are not generated: the RFC forbids them and the property does not say what must happen", "leaf-list deviate delete default is not generated (goyang documents it as unsupported)", "must/unique deviations are outside the claim"},
			minObserved: map[string]int64{"value_and_frame_cases": 1000, "expected_error_cases": 1000},
			nontrivial:  "nontrivial", evaluations: "cases",
			quick:    []spec{{family: "deviate", cases: 20000, cpuS: 900, asKB: 8 << 20, wallS: 1200}, {family: "latefaults", cases: 2000, cpuS: 900, asKB: 8 << 20, wallS: 1200}},
			thorough: []spec{{family: "deviate", cases: 300000, cpuS: 7200, asKB: 8 << 20, wallS: 9000}, {family: "latefaults", cases: 26000, cpuS: 7200, asKB: 8 << 20, wallS: 9000}},
		},
		"C11": {
			level:       "exploration",
			rule:        "random derivation graphs (identities over 1-4 modules and their submodules, 0-3 bases each, 8 names so that equal names in different modules are frequent, arbitrary import prefixes, identityref leaves), each loaded 8 (quick) or 24 (thorough) times in shuffled file order; every identity's Values is compared as a set with the graph closure, checked for duplicates, and its order compared across loads; non-trivial = closure deeper than direct children or equal names across modules; graphs are distinct by construction (keyed generator)",
			assumptions: []string{"the order of Values is only required to be a function of the schema: it is compared across loads and load orders, not against a predicted order", "map iteration orders are sampled by repetition, not enumerated"},
			minObserved: map[string]int64{"identity_checks": 10000},
			nontrivial:  "nontrivial", evaluations: "graphs",
			quick:    []spec{{family: "dag", cases: 20000, cpuS: 900, asKB: 8 << 20, wallS: 1200}},
			thorough: []spec{{family: "dag", cases: 400000, cpuS: 7200, asKB: 8 << 20, wallS: 9000}},
		},
		"C13": {
			level:       "exploration",
			rule:        "(a) sets of 2-4 module headers over 2 names and 4 dates (incl. no revision), every load order: table keys, bare name = latest, distinct (name, latest revision) pairs all accepted, import with and without revision-date bound to the right module, outcome identical across orders; (b) generated directory layouts (cwd + 1-3 search-path directories, name.yang, name@date.yang with several dates, eight kinds of near-miss names, a directory named like the file), module fetched by Read and by an import, the loaded file identified by a unique marker leaf; (c) generated modules split at random into 1-3 submodules with nested includes, canonical dump of split vs unsplit with positions masked; non-trivial = any header set, a layout with at least 3 files, a split that moves at least 2 definitions; cases distinct by construction",
			assumptions: []string{"two texts with the same (name, latest revision) are not generated in (a): the second is rejected by design", "plain search-path directories only; dir/... recursion is not judged", "augment and deviation statements stay in the module in (c): the claim lists data nodes, typedefs, groupings and identities"},
			minObserved: map[string]int64{"load_orders": 5000, "layouts": 1000, "splits_compared": 1000},
			nontrivial:  "nontrivial", evaluations: "load_orders,layouts,splits_compared",
			quick:    []spec{{family: "revisions", cases: 8000, cpuS: 900, asKB: 8 << 20, wallS: 1200}, {family: "files", cases: 6000, cpuS: 900, asKB: 8 << 20, wallS: 1200}, {family: "split", cases: 25000, cpuS: 900, asKB: 8 << 20, wallS: 1200}},
			thorough: []spec{{family: "revisions", cases: 60000, cpuS: 7200, asKB: 8 << 20, wallS: 9000}, {family: "files", cases: 40000, cpuS: 7200, asKB: 8 << 20, wallS: 9000}, {family: "split", cases: 200000, cpuS: 7200, asKB: 8 << 20, wallS: 9000}},
		},
		"C14": {
			level:       "exploration",
			rule:        "every sequence of enum/bit members up to the length bound over 4 names (one of them empty) x {implicit, 14 boundary values}, driven through NewEnumType/NewBitfield Set/SetNext (stopped at the first error) and, for every 50th sequence, through a module with an enumeration/bits leaf; plus explicit values and positions written as literals around 2^31, 2^32, 2^63, 2^64, 2^65, 3*2^64 and 2^128 (both signs, +-9) in a module, after zero or one earlier member and before an optional implicit one - out-of-range literals must be rejected whatever their magnitude; compared with RFC 7950 9.6.4.2/9.7.4.2 assignment in exact arithmetic; non-trivial = at least two members; sequences are distinct by construction",
			assumptions: []string{"behaviour of Set/SetNext after a call that returned an error is unspecified", "bit positions need not be unique (the property does not ask for it)"},
			minObserved: map[string]int64{"sequences": 100000, "schema_cases": 1000},
			nontrivial:  "nontrivial", evaluations: "sequences,literal_cases", exhaustive: true,
			quick:    []spec{{family: "enum", shards: 60, params: map[string]string{"maxlen": "3", "schema_every": "20"}, cpuS: 600, asKB: 8 << 20, wallS: 900}, {family: "literal", shards: 8, cpuS: 600, asKB: 8 << 20, wallS: 900}},
			thorough: []spec{{family: "enum", shards: 60, params: map[string]string{"maxlen": "4", "schema_every": "200"}, cpuS: 3600, asKB: 8 << 20, wallS: 5400}, {family: "literal", shards: 8, cpuS: 600, asKB: 8 << 20, wallS: 900}},
		},
		"C15": {
			level:       "exploration",
			rule:        "boundary grid of magnitudes (0, 1, 10^k-1, 10^k, 10^k+1, 2^k-1, 2^k, 2^k+1, 2^64-2, 2^64-1) x sign x fraction-digits 0..18 restricted to the stated domain: print/parse round trip and Int for every number, Less/Equal for every ordered pair, decimal and integer literals with fraction lengths 0..300 at every precision, range-checked integer arguments through modules, plus random triples and pairs; oracle math/big; non-trivial pair = differing sign or fraction digits",
			assumptions: []string{"a literal with more fraction digits than the precision may be rejected even when the excess digits are zero (RFC 7950 9.3); it must never yield another number"},
			minObserved: map[string]int64{"pairs": 1000000, "literals": 10000},
			nontrivial:  "nontrivial", evaluations: "pairs,literals,random_pairs,schema_cases",
			quick:    []spec{{family: "pairs", shards: 32, cpuS: 600, asKB: 8 << 20, wallS: 900}, {family: "literals", shards: 16, cpuS: 600, asKB: 8 << 20, wallS: 900}, {family: "schema", shards: 4, cpuS: 600, asKB: 8 << 20, wallS: 900}, {family: "random", cases: 2000000, cpuS: 600, asKB: 8 << 20, wallS: 900}},
			thorough: []spec{{family: "pairs", shards: 64, params: map[string]string{"dense": "1"}, cpuS: 3600, asKB: 8 << 20, wallS: 5400}, {family: "literals", shards: 16, cpuS: 3600, asKB: 8 << 20, wallS: 5400}, {family: "schema", shards: 4, cpuS: 600, asKB: 8 << 20, wallS: 900}, {family: "random", cases: 50000000, cpuS: 3600, asKB: 8 << 20, wallS: 5400}},
		},
		"C20": {
			level:       "fault_enumeration",
			rule:        "every text over the alphabet up to the length bound x 7 prefixes (two of them made of the texts' own characters) x every division into non-empty Write calls (a seventh of them also with empty writes interleaved) x every byte budget 0..len(output) of the underlying writer; plus buffers of 16 sizes around powers of two up to 256 KiB (quick) / 4 MiB (thorough) (6 line lengths, 3 prefixes, one or two Write calls, ~35 stop positions each, not exhaustive); plus two stacked indenting writers with every interleaving of up to four writes (5 texts, to either writer, 9 prefix pairs, 5 states of the lower writer when the upper one is created) against two stacked reference writers, and underlying writers that break the io.Writer contract (negative or excessive counts: the count returned must stay within [0, len]); a case is non-trivial when it has at least two chunks and a budget that cuts the output short; all cases are distinct by construction",
			assumptions: []string{"the underlying writer honours io.Writer: n < len(p) implies a non-nil error", "behaviour after a failed Write is unspecified and not driven"},
			minObserved: map[string]int64{"cases": 1000},
			nontrivial:  "nontrivial", evaluations: "cases,large_cases,stacked_cases,out_of_contract_cases", exhaustive: true,
			quick:    []spec{{family: "enum", shards: 16, params: map[string]string{"alphabet": "ab\n", "maxlen": "6"}, cpuS: 600, asKB: 8 << 20, wallS: 900}, {family: "enum", shards: 16, params: map[string]string{"alphabet": `"\x00\r\n\xff-"`, "maxlen": "5"}, cpuS: 600, asKB: 8 << 20, wallS: 900}, {family: "large", shards: 16, cpuS: 600, asKB: 8 << 20, wallS: 900}, {family: "stacked", shards: 15, cpuS: 600, asKB: 8 << 20, wallS: 900}},
			thorough: []spec{{family: "enum", shards: 64, params: map[string]string{"alphabet": "ab\n", "maxlen": "8"}, cpuS: 3600, asKB: 8 << 20, wallS: 5400}, {family: "enum", shards: 16, params: map[string]string{"alphabet": "a\n", "maxlen": "10"}, cpuS: 3600, asKB: 8 << 20, wallS: 5400}, {family: "enum", shards: 32, params: map[string]string{"alphabet": `"\x00\r\n\xff-"`, "maxlen": "6"}, cpuS: 3600, asKB: 8 << 20, wallS: 5400}, {family: "large", shards: 16, cpuS: 600, asKB: 8 << 20, wallS: 900}, {family: "stacked", shards: 15, cpuS: 600, asKB: 8 << 20, wallS: 900}},
		},
	}
}

type outcome struct {
	violations   []*job.Record
	known        map[string]*kf.Finding
	knownCount   map[string]int
	counters     map[string]int64
	sets         map[string]map[string]bool
	samples      []any
	inconclusive []string
	incomplete   int
}

func (e *env) run(prop string) int {
	pl := plans()[prop]
	if pl == nil {
		fatal(2, "no check for property %s", prop)
	}
	specs := pl.quick
	if e.tier == "thorough" {
		specs = pl.thorough
	}
	t0 := time.Now()
	findings, err := kf.Load(filepath.Join(e.root, "known_findings.json"))
	if err != nil {
		fatal(2, "known_findings.json: %v", err)
	}
	bins := map[bool]string{}
	for _, s := range specs {
		if _, ok := bins[s.race]; !ok {
			// VERIF_COVER=<dir> (a measuring aid, never set by a registered command): the worker
			// is built with statement coverage of goyang and leaves its counters in <dir>
			b, err := e.build(s.race, os.Getenv("VERIF_COVER") != "")
			if err != nil {
				fatal(2, "cannot build the worker from /repo: %v", err)
			}
			bins[s.race] = b
		}
	}
	// the goyang command, for the families that drive it
	for i := range specs {
		if specs[i].family == "cli" {
			out := filepath.Join(e.scratch, "goyang")
			cmd := exec.Command("go", "build", "-o", out, ".")
			cmd.Dir = "/repo"
			if d := os.Getenv("VERIF_REPO_DIR"); d != "" {
				cmd.Dir = d // trials against a scratch copy only
			}
			cmd.Env = goEnv()
			if b, err := cmd.CombinedOutput(); err != nil {
				fatal(2, "cannot build the goyang command from /repo: %v\n%s", err, b)
			}
			if specs[i].params == nil {
				specs[i].params = map[string]string{}
			}
			specs[i].params["goyang"] = out
		}
	}
	// jobs
	type queued struct {
		j *job.Job
		s spec
	}
	var queue []queued
	for _, s := range specs {
		if s.cases > 0 {
			per := (s.cases + maxProcs - 1) / maxProcs
			for st := int64(0); st < s.cases; st += per {
				c := per
				if st+c > s.cases {
					c = s.cases - st
				}
				queue = append(queue, queued{&job.Job{Property: prop, Family: s.family, Tier: e.tier, Seed: e.seed, Start: st, Count: c, Params: s.params}, s})
			}
		} else {
			for k := 0; k < s.shards; k++ {
				queue = append(queue, queued{&job.Job{Property: prop, Family: s.family, Tier: e.tier, Seed: e.seed, Shard: k, Shards: s.shards, Params: s.params}, s})
			}
		}
	}
	// Witnesses of the open findings of this property run on every check, in the
	// first job of the family that is named in the entry, so that each listed
	// finding is observed again (or seen to have gone) whatever the seed.
	witnesses := map[string][]json.RawMessage{}
	for _, fd := range findings.Findings {
		if fd.Status == "open" && fd.Property == prop && fd.Family != "" && len(fd.Witness) > 0 {
			witnesses[fd.Family] = append(witnesses[fd.Family], fd.Witness)
		}
	}
	given := map[string]bool{}
	for i := range queue {
		f := queue[i].j.Family
		if w := witnesses[f]; len(w) > 0 && !given[f] {
			given[f] = true
			nj := *queue[i].j
			nj.Params = map[string]string{}
			for k, v := range queue[i].j.Params {
				nj.Params[k] = v
			}
			wb, _ := json.Marshal(w)
			nj.Params["witnesses"] = string(wb)
			queue[i].j = &nj
		}
	}
	out := &outcome{known: map[string]*kf.Finding{}, knownCount: map[string]int{}, counters: map[string]int64{}, sets: map[string]map[string]bool{}}
	var mu sync.Mutex
	sem := make(chan struct{}, maxProcs)
	var wg sync.WaitGroup
	var seq int
	hangs := map[string]int{}
	crashes := map[string]int{}
	skipped := map[string]int{}
	var handle func(q queued, restarts int)
	handle = func(q queued, restarts int) {
		defer wg.Done()
		sem <- struct{}{}
		mu.Lock()
		seq++
		n := seq
		mu.Unlock()
		res := e.runWorker(bins[q.s.race], q.j, n, q.s.cpuS, q.s.asKB, q.s.wallS)
		<-sem
		mu.Lock()
		defer mu.Unlock()
		for _, r := range res.records {
			switch r.Type {
			case "violation":
				out.violations = append(out.violations, r)
			case "stat":
				for k, v := range r.Counters {
					out.counters[k] += v
				}
				for k, vs := range r.Sets {
					if out.sets[k] == nil {
						out.sets[k] = map[string]bool{}
					}
					for _, v := range vs {
						out.sets[k][v] = true
					}
				}
			case "sample":
				if len(out.samples) < 6 {
					out.samples = append(out.samples, r.Sample)
				}
			}
		}
		if res.done && res.exit == "" {
			return
		}
		// abnormal end
		if res.exit == "exit 3" {
			// the worker's own per-case CPU watchdog fired and recorded the case
			hangs[q.j.Family]++
			if hangs[q.j.Family] > 24 {
				out.inconclusive = append(out.inconclusive, fmt.Sprintf("%s: more than 24 cases exceeded their CPU budget; remaining cases of this shard not run", q.j.Family))
				return
			}
			if q.j.Count > 0 {
				next := res.curIndex + 1
				if next <= q.j.Start {
					next = q.j.Start + 1
				}
				if end := q.j.Start + q.j.Count; next < end {
					nj := *q.j
					nj.Start, nj.Count = next, end-next
					wg.Add(1)
					go handle(queued{&nj, q.s}, restarts+1)
				}
			} else {
				out.incomplete++
			}
			return
		}
		switch {
		case res.watchdog:
			out.inconclusive = append(out.inconclusive, fmt.Sprintf("wall-clock watchdog fired on %s (case index %d)", q.j.CaseID(res.curIndex), res.curIndex))
			return
		case res.cpuLimited:
			out.violations = append(out.violations, &job.Record{Type: "violation", Monitor: "process", Class: "cpu-budget-exceeded", Detail: fmt.Sprintf("worker used %.0f CPU seconds (budget %d)", res.cpuS, q.s.cpuS), Case: res.current, CaseID: q.j.CaseID(res.curIndex), Index: res.curIndex})
		default:
			kind, frame := crashSignature(res.stderrTail)
			if frame == "" && !strings.Contains(res.stderrTail, "github.com/openconfig/goyang/") {
				// The worker died without goyang anywhere on a stack: that is a fault of
				// this machinery, not an observation about goyang.
				tail := res.stderrTail
				if len(tail) > 1500 {
					tail = tail[:1500]
				}
				out.inconclusive = append(out.inconclusive, fmt.Sprintf("worker fault in %s near case %d: %s\n%s", q.j.Family, res.curIndex, kind, tail))
				return
			}
			tail := res.stderrTail
			if len(tail) > 6000 {
				tail = tail[:6000]
			}
			out.violations = append(out.violations, &job.Record{Type: "violation", Monitor: "process", Class: "crash@" + frame, Detail: fmt.Sprintf("%s; %s in %s\n%s", res.exit, kind, frame, tail), Case: res.current, CaseID: q.j.CaseID(res.curIndex), Index: res.curIndex, Facts: map[string]any{"kind": kind, "frame": frame}})
		}
		// A crash site that has been seen 40 times in this family is established; further
		// restarts would only burn time (a runaway recursion costs seconds and a gigabyte).
		crashes[q.j.Family+"/"+out.violations[len(out.violations)-1].Class]++
		if crashes[q.j.Family+"/"+out.violations[len(out.violations)-1].Class] > 40 {
			skipped[q.j.Family]++
			return
		}
		// resume an indexed family behind the failing case
		if q.j.Count > 0 && restarts < 200 {
			next := res.curIndex + 1
			if next <= q.j.Start {
				next = q.j.Start + 1 // always make progress
			}
			end := q.j.Start + q.j.Count
			if next < end {
				nj := *q.j
				nj.Start, nj.Count = next, end-next
				wg.Add(1)
				go handle(queued{&nj, q.s}, restarts+1)
				return
			}
		} else if q.j.Count > 0 {
			out.inconclusive = append(out.inconclusive, fmt.Sprintf("%s: gave up after 200 restarts, cases %d..%d not run", q.j.Family, res.curIndex+1, q.j.Start+q.j.Count-1))
		} else {
			out.incomplete++
		}
	}
	for _, q := range queue {
		wg.Add(1)
		go handle(q, 0)
	}
	wg.Wait()

	// judge
	var fresh []*job.Record
	for _, v := range out.violations {
		if fd := findings.Match(prop, v); fd != nil {
			out.known[fd.ID] = fd
			out.knownCount[fd.ID]++
			continue
		}
		fresh = append(fresh, v)
	}
	var ids []string
	for id := range out.known {
		ids = append(ids, id)
	}
	sort.Strings(ids)
	for _, id := range ids {
		fmt.Printf("KNOWN-FINDING: property=%s %s (id=%s, seen %d times)\n", prop, out.known[id].What, id, out.knownCount[id])
	}
	for _, fd := range findings.Findings {
		if fd.Status == "open" && fd.Property == prop && out.known[fd.ID] == nil {
			// Not a failure: this is what a later repair looks like. The entry
			// suppresses nothing when nothing matches it.
			fmt.Printf("NOTE: known finding %s (property %s) was not observed in this run; the entry may be stale\n", fd.ID, prop)
		}
	}
	exit := 0
	// group fresh violations by monitor/class and write one replay per group
	groups := map[string][]*job.Record{}
	for _, v := range fresh {
		k := v.Monitor + "/" + v.Class
		groups[k] = append(groups[k], v)
	}
	var gks []string
	for k := range groups {
		gks = append(gks, k)
	}
	sort.Strings(gks)
	outRoot := e.root
	if os.Getenv("VERIF_NO_EVIDENCE") != "" {
		// mutation trials against a scratch copy must not overwrite the evidence and
		// replays of /repo; they go to the scratch directory and vanish with it
		outRoot = e.scratch
	}
	os.MkdirAll(filepath.Join(outRoot, "replays"), 0o755)
	for i, k := range gks {
		v := groups[k][0]
		path := filepath.Join(outRoot, "replays", fmt.Sprintf("%s-%s-seed%d-%d.json", prop, e.tier, e.seed, i))
		rb, _ := json.MarshalIndent(map[string]any{"property": prop, "tier": e.tier, "seed": e.seed, "monitor": v.Monitor, "class": v.Class, "detail": v.Detail, "case_id": v.CaseID, "index": v.Index, "case": v.Case, "facts": v.Facts, "occurrences_in_this_run": len(groups[k]), "family": familyOf(v.CaseID)}, "", " ")
		os.WriteFile(path, rb, 0o644)
		first := strings.SplitN(v.Detail, "\n", 2)[0]
		if len(first) > 240 {
			first = first[:240]
		}
		fmt.Printf("VIOLATION property=%s replay=%s monitor=%s class=%s count=%d :: %s\n", prop, path, v.Monitor, v.Class, len(groups[k]), first)
		exit = 1
	}
	// inconclusive?
	for name, min := range pl.minObserved {
		if out.counters[name] < min {
			out.inconclusive = append(out.inconclusive, fmt.Sprintf("observed only %d %s, need %d", out.counters[name], name, min))
		}
	}
	if out.incomplete > 0 && exit == 0 {
		out.inconclusive = append(out.inconclusive, fmt.Sprintf("%d enumeration shards did not finish", out.incomplete))
	}
	if exit == 0 && len(out.inconclusive) > 0 {
		for _, s := range out.inconclusive {
			fmt.Printf("INCONCLUSIVE property=%s %s\n", prop, s)
		}
		exit = 2
	}
	// evidence
	var evaluations int64
	for _, c := range strings.Split(pl.evaluations, ",") {
		evaluations += out.counters[c]
	}
	cov := map[string]any{
		"evaluations":         evaluations,
		"distinct_nontrivial": out.counters[pl.nontrivial],
		"rule":                pl.rule,
		"samples":             out.samples,
		"exhaustive":          pl.exhaustive && out.incomplete == 0,
		"counters":            out.counters,
		"known_findings_seen": out.knownCount,
		"worker_jobs":         len(queue),
		"shards_abandoned_after_40_crashes_at_one_site": skipped,
	}
	for k, m := range out.sets {
		var vs []string
		for v := range m {
			vs = append(vs, v)
		}
		sort.Strings(vs)
		if len(vs) > 200 {
			vs = vs[:200]
		}
		cov["set:"+k] = vs
		cov["set_size:"+k] = len(m)
	}
	if len(out.samples) == 0 {
		cov["samples"] = []any{"(no sample recorded)"}
	}
	ev := &evid.Evidence{PropertyID: prop, Tier: e.tier, Seed: e.seed, Level: pl.level, Coverage: cov, Assumptions: pl.assumptions, WallS: time.Since(t0).Seconds(), Violations: len(fresh)}
	if err := evid.Write(filepath.Join(outRoot, "evidence"), ev); err != nil {
		fmt.Printf("BROKEN: cannot write evidence: %v\n", err)
		return 2
	}
	fmt.Printf("SUMMARY property=%s tier=%s seed=%d evaluations=%d nontrivial=%d violations=%d known=%d wall=%.1fs\n", prop, e.tier, e.seed, evaluations, out.counters[pl.nontrivial], len(fresh), len(out.known), time.Since(t0).Seconds())
	return exit
}

// replay re-runs the case recorded in a replay file against the current /repo tree.
func (e *env) replay(path string) int {
	data, err := os.ReadFile(path)
	if err != nil {
		fatal(2, "%v", err)
	}
	var rp struct {
		Property string          `json:"property"`
		Tier     string          `json:"tier"`
		Seed     int64           `json:"seed"`
		Family   string          `json:"family"`
		Index    int64           `json:"index"`
		Case     json.RawMessage `json:"case"`
		Class    string          `json:"class"`
		Monitor  string          `json:"monitor"`
	}
	if err := json.Unmarshal(data, &rp); err != nil {
		fatal(2, "%s: %v", path, err)
	}
	pl := plans()[rp.Property]
	if pl == nil {
		fatal(2, "unknown property %s", rp.Property)
	}
	var sp *spec
	for _, list := range [][]spec{pl.quick, pl.thorough} {
		for i := range list {
			if list[i].family == rp.Family && sp == nil {
				sp = &list[i]
			}
		}
	}
	if sp == nil {
		fatal(2, "unknown family %s", rp.Family)
	}
	bin, err := e.build(sp.race, false)
	if err != nil {
		fatal(2, "cannot build the worker from /repo: %v", err)
	}
	params := map[string]string{}
	for k, v := range sp.params {
		params[k] = v
	}
	params["case"] = string(rp.Case)
	j := &job.Job{Property: rp.Property, Family: rp.Family, Tier: rp.Tier, Seed: rp.Seed, Start: rp.Index, Count: 1, Shards: 1, Params: params, Replay: true}
	res := e.runWorker(bin, j, 0, 600, sp.asKB, 900)
	n := 0
	for _, r := range res.records {
		if r.Type == "violation" {
			n++
			fmt.Printf("REPRODUCED monitor=%s class=%s :: %s\n", r.Monitor, r.Class, strings.SplitN(r.Detail, "\n", 2)[0])
		}
	}
	if !res.done || res.exit != "" {
		kind, frame := crashSignature(res.stderrTail)
		fmt.Printf("REPRODUCED monitor=process class=crash :: %s; %s in %s\n", res.exit, kind, frame)
		n++
	}
	if n == 0 {
		fmt.Printf("NOT-REPRODUCED %s case %d of family %s (recorded: %s/%s)\n", rp.Property, rp.Index, rp.Family, rp.Monitor, rp.Class)
		return 0
	}
	return 1
}

func familyOf(caseID string) string {
	p := strings.Split(caseID, "/")
	if len(p) >= 2 {
		return p[1]
	}
	return ""
}

func main() {
	if len(os.Args) < 3 {
		fmt.Println("usage: vcheck run <property> --tier quick|thorough | vcheck replay <file>")
		os.Exit(2)
	}
	exe, _ := os.Executable()
	exe, _ = filepath.EvalSymlinks(exe)
	root := filepath.Dir(filepath.Dir(exe))
	if r := os.Getenv("VERIF_ROOT"); r != "" {
		root = r
	}
	e := &env{root: root, harness: filepath.Join(root, "harness"), seed: 1, tier: "quick"}
	if s := os.Getenv("VERIF_SEED"); s != "" {
		if v, err := strconv.ParseInt(s, 10, 64); err == nil {
			e.seed = v
		}
	}
	if t := os.Getenv("VERIF_TIER"); t == "quick" || t == "thorough" {
		e.tier = t
	}
	for i, a := range os.Args {
		if a == "--tier" && i+1 < len(os.Args) {
			e.tier = os.Args[i+1]
		}
	}
	base := os.Getenv("VERIF_SCRATCH")
	if base == "" {
		base = "/var/tmp"
	}
	e.scratch = filepath.Join(base, fmt.Sprintf("verif-%d", os.Getpid()))
	if err := os.MkdirAll(e.scratch, 0o755); err != nil {
		fatal(2, "scratch: %v", err)
	}
	code := 2
	func() {
		defer os.RemoveAll(e.scratch)
		switch os.Args[1] {
		case "run":
			code = e.run(os.Args[2])
		case "replay":
			code = e.replay(os.Args[2])
		default:
			fmt.Println("unknown command", os.Args[1])
		}
	}()
	os.Exit(code)
}
